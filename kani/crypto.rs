//@ module src/crypto/mod.rs
//@ harness c01_remote_key_dispatch kind=bounded tier=quick timeout=1200 covers=2 bound="key data of 0..=40 bytes (every i32 key type); only the comparison with 32 matters"
//@ harness c01_crypto_canary kind=canary tier=quick timeout=120
//
// C01 / C19 — RemotePublicKey::try_from(keys_proto::PublicKey): only a 32-byte Ed25519 key is ever accepted
// (default features: no RSA), for every key-type integer and every data length 0..=40; no panic.
use super::*;

/// point decompression is dependency code (curve25519): nondeterministic result of the right shape
fn stub_vk_from_bytes(_b: &[u8; 32]) -> Result<ed25519_dalek::VerifyingKey, ed25519_dalek::SignatureError> {
    if kani::any() { Ok(unsafe { core::mem::MaybeUninit::uninit().assume_init() }) }
    else { Err(ed25519_dalek::SignatureError::new()) }
}

#[kani::proof]
#[kani::unwind(42)]
#[kani::stub(ed25519_dalek::VerifyingKey::from_bytes, stub_vk_from_bytes)]
fn c01_remote_key_dispatch() {
    let ty: i32 = kani::any();
    let data: [u8; 40] = kani::any();
    let len: usize = kani::any();
    kani::assume(len <= 40);
    let pk = keys_proto::PublicKey { r#type: ty, data: data[..len].to_vec() };
    let r = RemotePublicKey::try_from(pk);
    kani::cover!(r.is_ok());
    kani::cover!(r.is_err() && ty == keys_proto::KeyType::Ed25519 as i32);
    if r.is_ok() {
        assert!(ty == 1);          // libp2p keys.proto: Ed25519 = 1
        assert!(len == 32);
    }
    core::mem::forget(r);
}

#[kani::proof]
fn c01_crypto_canary() {
    let x: u8 = kani::any();
    assert!(x != 7);
}
