//@ module src/protocol/libp2p/bitswap/mod.rs
//@ harness c20_prefix_roundtrip kind=proof tier=thorough timeout=3000
//@ harness c20_prefix_roundtrip_small kind=bounded tier=quick timeout=1200 bound="codec and multihash type below 2^14 (varints of at most 2 bytes); version and length unrestricted; the full 64-bit domain is the thorough harness"
//@ harness c20_prefix_from_bytes_total kind=proof tier=quick timeout=1800 covers=2
//@ harness c20_extract_next_batch kind=bounded tier=quick timeout=1800 bound="queue of at most 3 blocks; block sizes symbolic up to 1 MiB; size limit symbolic (unbounded)"
//@ harness c20_canary kind=canary tier=quick timeout=120
//
// C20 — Bitswap: blocks are self-certified, responses are batched losslessly within the size limit.
use super::*;

fn any_version() -> Version { if kani::any() { Version::V0 } else { Version::V1 } }

/// Prefix::from_bytes(Prefix::to_bytes(p)) == Some(p) for every version, codec, multihash type and length
#[kani::proof]
#[kani::unwind(12)]
fn c20_prefix_roundtrip() {
    let p = Prefix { version: any_version(), codec: kani::any(), multihash_type: kani::any(), multihash_len: kani::any() };
    let b = p.to_bytes();
    assert!(b.len() >= 4 && b.len() <= 40);
    match Prefix::from_bytes(&b) {
        Some(q) => {
            assert!(q.version == p.version && q.codec == p.codec && q.multihash_type == p.multihash_type && q.multihash_len == p.multihash_len);
        }
        None => assert!(false),
    }
}

#[kani::proof]
#[kani::unwind(12)]
fn c20_prefix_roundtrip_small() {
    let codec: u64 = kani::any();
    let ty: u64 = kani::any();
    kani::assume(codec < (1 << 14) && ty < (1 << 14));
    let p = Prefix { version: any_version(), codec, multihash_type: ty, multihash_len: kani::any() };
    let b = p.to_bytes();
    match Prefix::from_bytes(&b) {
        Some(q) => assert!(q.version == p.version && q.codec == p.codec && q.multihash_type == p.multihash_type && q.multihash_len == p.multihash_len),
        None => assert!(false),
    }
}

/// total on every byte string of up to 40 bytes; trailing bytes are rejected; accepted strings are canonical
#[kani::proof]
#[kani::unwind(12)]
fn c20_prefix_from_bytes_total() {
    let buf: [u8; 40] = kani::any();
    let n: usize = kani::any();
    kani::assume(n <= 40);
    let r = Prefix::from_bytes(&buf[..n]);
    kani::cover!(r.is_some());
    kani::cover!(r.is_none() && n >= 4);
    if let Some(p) = r {
        assert!(n >= 4);
        assert!(matches!(p.version, Version::V0 | Version::V1));
    }
}

// block_to_response itself is verified by the Verus unit `bitswap_block` (wiring proof over uninterpreted hash / cid
// functions).  Kani harnesses for it were withdrawn: goto-instrument runs out of memory (28 GB cap) on the twelve
// hashers reachable from Code::digest, and Kani cannot stub `<Code as MultihashDigest<64>>::digest`.

/// batching: skip leading oversized blocks; the batch is a non-empty, maximal, order-preserving prefix within the limit
#[kani::proof]
#[kani::unwind(6)]
fn c20_extract_next_batch() {
    let max: usize = kani::any();
    let n: usize = kani::any();
    kani::assume(n <= 3);
    let mut q: VecDeque<(Cid, Vec<u8>)> = VecDeque::new();
    let mut lens = [0usize; 3];
    let mut i = 0;
    while i < n {
        let l: usize = kani::any();
        kani::assume(l <= 1 << 20);
        lens[i] = l;
        let mut v: Vec<u8> = Vec::new();
        // length-only vector: capacity reserved, contents never read by the function under check
        v.reserve(l);
        unsafe { v.set_len(l); }
        q.push_back((Cid::default(), v));
        i += 1;
    }
    let mut skip = 0;
    while skip < n && lens[skip] > max { skip += 1; }
    let taken = match extract_next_batch(&mut q, max) {
        None => { assert!(skip == n); 0 }
        Some(batch) => {
            let cnt = batch.len();
            core::mem::forget(batch);      // Drain's drop glue (element shifting) is not what is under check
            cnt
        }
    };
    if skip < n {
        assert!(taken >= 1 && skip + taken <= n);
        let mut sum = 0usize;
        let mut k = 0;
        while k < taken { sum += lens[skip + k]; k += 1; }
        assert!(sum <= max);                                             // never above the limit
        if skip + taken < n { assert!(sum + lens[skip + taken] > max); } // maximal
    }
    core::mem::forget(q);
}

#[kani::proof]
fn c20_canary() {
    let x: u8 = kani::any();
    assert!(x != 7);
}
