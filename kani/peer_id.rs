//@ module src/peer_id.rs
//@ harness c18_from_multihash_agrees_with_reference kind=proof tier=quick timeout=300
//@ harness c18_from_multihash_contract kind=proof tier=quick timeout=300
//@ harness c18_infallible_conversion_total kind=proof tier=quick timeout=300
//@ harness c18_canary kind=canary tier=quick timeout=120
//
// C18 — peer ids are canonical, round-trip and match the libp2p reference.
// Child module of the real `crate::peer_id`; sees the private `multihash` field.
// Oracle: `multiaddr::PeerId` IS `libp2p_identity::PeerId` (the reference implementation).
use super::*;

/// the struct invariant every constructor must establish (what the `expect` in
/// `From<PeerId> for multiaddr::PeerId` relies on)
fn valid(p: &PeerId) -> bool {
    let code = p.multihash.code();
    code == 0x12 || (code == 0x00 && p.multihash.digest().len() <= 42)
}

fn any_multihash() -> Multihash {
    let code: u64 = kani::any();
    let len: usize = kani::any();
    kani::assume(len <= 64);
    let digest: [u8; 64] = kani::any();
    Multihash::wrap(code, &digest[..len]).unwrap()
}

/// for EVERY multihash <code, len<=64, digest>: accept/reject equal to the reference
#[kani::proof]
#[kani::unwind(66)]
fn c18_from_multihash_agrees_with_reference() {
    let mh = any_multihash();
    let ours = PeerId::from_multihash(mh);
    let reference = multiaddr::PeerId::try_from(mh);
    kani::cover!(ours.is_ok() && mh.code() == 0, "identity accepted");
    kani::cover!(ours.is_ok() && mh.code() == 0x12, "sha256 accepted");
    kani::cover!(ours.is_err() && mh.code() == 0, "long identity rejected");
    kani::cover!(ours.is_err() && mh.code() != 0, "foreign code rejected");
    assert!(ours.is_ok() == reference.is_ok());
}

/// Ok(p) => p wraps exactly the given multihash and is valid;  Err(m) => m is the given multihash.
#[kani::proof]
#[kani::unwind(66)]
fn c18_from_multihash_contract() {
    let mh = any_multihash();
    match PeerId::from_multihash(mh) {
        Ok(p) => {
            assert!(valid(&p));
            assert!(p.multihash == mh);
            // accepts exactly valid ones
        }
        Err(m) => {
            assert!(m == mh);
            assert!(!(mh.code() == 0x12 || (mh.code() == 0 && mh.digest().len() <= 42)));
        }
    }
}

/// the infallible conversion cannot panic on any valid PeerId, and goes back to the same PeerId
#[kani::proof]
#[kani::unwind(66)]
fn c18_infallible_conversion_total() {
    let mh = any_multihash();
    let p = PeerId { multihash: mh };
    kani::assume(valid(&p));
    let m: multiaddr::PeerId = p.into();
    let back = PeerId::from_multihash(m);
    assert!(back == Ok(p));
}

// Tried and withdrawn (measured): from_public_key_protobuf over |k| <= 100 (goto-instrument killed at 62 GB: SHA-256
// cannot be stubbed — Kani cannot resolve `<Code as MultihashDigest<64>>::digest`), to_bytes/from_bytes round trip
// (CBMC out of memory) and from_bytes vs reference on <= 12 raw bytes (no result in 15 min).  Those clauses of C18 are
// listed as not decided.

#[kani::proof]
fn c18_canary() {
    let x: u8 = kani::any();
    assert!(x != 7);
}
