//@ module src/substream/mod.rs
//@ harness c04_read_payload_size kind=proof tier=quick timeout=1200 covers=3
//@ harness c04_poll_next_identity_first_poll kind=proof tier=quick timeout=1200 covers=2
//@ harness c04_poll_next_identity_step kind=proof tier=quick timeout=1200 covers=2
//@ harness c04_poll_next_varint_prefix_step kind=proof tier=quick timeout=1200 covers=3
//@ harness c04_poll_next_varint_body_step kind=proof tier=quick timeout=1200 covers=2
//@ harness c04_sink_start_send kind=bounded tier=quick timeout=1200 covers=3 bound="item length 0..=300 (one- and two-byte prefixes), identity size <= 2^40"
//@ harness c04_sink_flush_complete_means_drained kind=bounded tier=quick timeout=1200 covers=2 bound="one parked frame of <= 2 bytes plus at most one queued frame of <= 2 bytes; carrier parks after 2 writes"
//@ harness c04_send_identity_payload kind=bounded tier=quick timeout=1200 covers=2 bound="payload of 0..=3 bytes, carrier parks after 4 polls"
//@ harness c04_send_varint_payload kind=bounded tier=quick timeout=1200 covers=2 bound="payload of 0..=3 bytes, carrier parks after 5 polls"
//@ harness c04_canary kind=canary tier=quick timeout=120
//
// C04 — framed substream messages.  Child module of crate::substream: sees the private fields of `Substream`.
// The carrier (`tcp::Substream`, a yamux stream) is replaced by its CONTRACT: every poll may return Pending, an
// error, or transfer n bytes with n <= buffer length.  One poll from an arbitrary invariant-satisfying state is the
// inductive step over all fragmentations and Pending injections, with no bound on the number of polls.
use super::*;

/// Every mutable static of this file carries a unique tag next to its value.  Kani 0.68 names a constant allocation
/// after the first global with the same bytes, so an all-zero `static mut X: usize = 0` can become the storage of an
/// unrelated all-zero CONSTANT of the standard library (observed: alloc::raw_vec::ZERO_CAP read from a harness
/// counter, depending on the crate hash and therefore on the path of the checkout).  A unique tag makes the bytes of
/// each static unique, so no constant can be merged with it.
#[repr(C)]
struct Tagged<T> { tag: u64, v: T }

use std::task::{Context, Poll};

type TcpSub = crate::transport::tcp::Substream;

// ---- carrier contract ----------------------------------------------------------------------------------
static mut READ_CALLS: Tagged<u32> = Tagged { tag: 0x9dea74a7b9cd861, v: 0 };
static mut READ_ASKED: Tagged<usize> = Tagged { tag: 0x1cec7460351014f, v: 0 };      // remaining() of the buffer handed to the carrier on the last read
static mut WRITE_OFFERED: Tagged<usize> = Tagged { tag: 0xbfcd99f754c7b8f, v: 0 };   // total bytes offered to the carrier's poll_write
static mut WRITE_TAKEN: Tagged<usize> = Tagged { tag: 0xa85f7030d4156a7, v: 0 };     // total bytes the carrier accepted
static mut WRITE_PENDING: Tagged<bool> = Tagged { tag: 0x3933ff8c523a113, v: false };
static mut WRITE_CALLS: Tagged<u32> = Tagged { tag: 0x1ea16968ed291b1, v: 0 };
static mut FLUSH_OK: Tagged<bool> = Tagged { tag: 0xb1c902d129d540f, v: false };

fn nd_poll_read(_s: Pin<&mut TcpSub>, _cx: &mut Context<'_>, buf: &mut ReadBuf<'_>) -> Poll<std::io::Result<()>> {
    // the carrier parks on its second poll: one transfer, one re-entry of the read loop, then Pending.
    // (Every later iteration starts from a state this harness already quantifies over.)
    unsafe {
        if READ_CALLS.v >= 1 { return Poll::Pending; }
        READ_CALLS.v += 1;
        READ_ASKED.v = buf.remaining();
    }
    match kani::any::<u8>() % 3 {
        0 => Poll::Pending,
        1 => Poll::Ready(Err(ErrorKind::BrokenPipe.into())),
        _ => {
            let n: usize = kani::any();
            kani::assume(n <= buf.remaining());
            // buffers handed in are pre-initialised (BytesMut::zeroed); the bytes keep whatever value they have,
            // which for symbolic-content buffers means "any bytes arrived"
            buf.advance(n);
            Poll::Ready(Ok(()))
        }
    }
}
fn nd_poll_write(_s: Pin<&mut TcpSub>, _cx: &mut Context<'_>, buf: &[u8]) -> Poll<Result<usize, std::io::Error>> {
    unsafe {
        // parks on its third poll (two frames can be in flight in the harness state)
        if WRITE_CALLS.v >= 2 { WRITE_PENDING.v = true; return Poll::Pending; }
        WRITE_CALLS.v += 1;
        WRITE_OFFERED.v += buf.len();
    }
    match kani::any::<u8>() % 3 {
        0 => { unsafe { WRITE_PENDING.v = true; } Poll::Pending }
        1 => Poll::Ready(Err(ErrorKind::BrokenPipe.into())),
        _ => {
            let n: usize = kani::any();
            // a well-behaved carrier accepts at least one byte of a non-empty buffer (0 means "write zero" = error)
            kani::assume(n <= buf.len() && (n >= 1 || buf.is_empty()));
            unsafe { WRITE_TAKEN.v += n; }
            Poll::Ready(Ok(n))
        }
    }
}
fn nd_poll_flush(_s: Pin<&mut TcpSub>, _cx: &mut Context<'_>) -> Poll<Result<(), std::io::Error>> {
    match kani::any::<u8>() % 3 {
        0 => Poll::Pending,
        1 => Poll::Ready(Err(ErrorKind::BrokenPipe.into())),
        _ => { unsafe { FLUSH_OK.v = true; } Poll::Ready(Ok(())) }
    }
}

fn any_peer() -> PeerId { PeerId::from_bytes(&[0u8, 1, 7]).unwrap() }
/// fabricated carrier value: never read (all four IO methods are stubbed), never dropped (mem::forget)
fn carrier() -> SubstreamType {
    SubstreamType::Tcp(unsafe { core::mem::MaybeUninit::<TcpSub>::uninit().assume_init() })
}
fn fresh(codec: ProtocolCodec) -> Substream {
    Substream::new(any_peer(), SubstreamId::from(0usize), carrier(), codec)
}
fn cx_poll_next(s: &mut Substream) -> Poll<Option<Result<BytesMut, SubstreamError>>> {
    let waker = futures::task::noop_waker();
    let mut cx = Context::from_waker(&waker);
    Pin::new(s).poll_next(&mut cx)
}

// ---- read_payload_size: total, and exact against the varint definition -----------------------------------
#[kani::proof]
#[kani::unwind(13)]
fn c04_read_payload_size() {
    let buf: [u8; 11] = kani::any();
    let len: usize = kani::any();
    kani::assume(len <= 11);
    let b = &buf[..len];
    match read_payload_size(b) {
        Ok((v, n)) => {
            kani::cover!(n == 1);
            kani::cover!(n == 10);
            assert!(n >= 1 && n <= len && n <= 10);
            assert!(b[n - 1] & 0x80 == 0);
            let k: usize = kani::any();                      // universally quantified witness
            kani::assume(k < 11);
            if k + 1 < n { assert!(b[k] & 0x80 != 0); }
            // value = sum (b[i] & 0x7f) << 7i
            let mut acc: u128 = 0;
            let mut i = 0;
            while i < n { acc |= ((b[i] & 0x7f) as u128) << (7 * i); i += 1; }
            // unsigned-varint 0.8 silently drops the bits of the 10th byte above 2^64 (dependency behaviour, recorded
            // as a boundary in the evidence): the value is the sum modulo 2^64
            assert!(acc as u64 == v as u64);
        }
        Err(ReadError::NotEnoughBytes) => {
            kani::cover!(len == 0);
            assert!(len < 10);
            let k: usize = kani::any();
            if k < len { assert!(b[k] & 0x80 != 0); }
        }
        Err(ReadError::Overflow) => {
            assert!(len >= 10);
            let k: usize = kani::any();
            if k < 10 { assert!(b[k] & 0x80 != 0); }
        }
        Err(ReadError::DecodeError) => {
            // only non-minimal or > 64-bit encodings are decode errors; a terminator exists
            let mut found = false;
            let mut i = 0;
            while i < len && i < 10 { if b[i] & 0x80 == 0 { found = true; } i += 1; }
            assert!(found);
        }
    }
}

// ---- Stream::poll_next, fixed-size frames ---------------------------------------------------------------
const IDENTITY_CAP: usize = 1 << 40;

/// P1 (no panic) on the very first poll of a fresh substream, for EVERY fixed frame size (the constructor's real
/// initial buffers), and P2: a delivered frame has exactly the configured size.
#[kani::proof]
#[kani::unwind(4)]
#[kani::stub(<crate::transport::tcp::Substream as tokio::io::AsyncRead>::poll_read, nd_poll_read)]
fn c04_poll_next_identity_first_poll() {
    let n: usize = kani::any();
    kani::assume(n <= IDENTITY_CAP);
    let mut s = fresh(ProtocolCodec::Identity(n));
    let r = cx_poll_next(&mut s);
    kani::cover!(n > 1024);
    kani::cover!(matches!(r, Poll::Ready(Some(Ok(_)))));
    if let Poll::Ready(Some(Ok(f))) = &r {
        assert!(f.len() == n);
    }
    // the carrier is never asked for more than the rest of the current frame
    unsafe { if READ_CALLS.v > 0 { assert!(READ_ASKED.v <= n); } }
    core::mem::forget(r);
    core::mem::forget(s);
}

/// inductive step from an arbitrary mid-frame state (offset < n, buffer of at least n bytes)
#[kani::proof]
#[kani::unwind(4)]
#[kani::stub(<crate::transport::tcp::Substream as tokio::io::AsyncRead>::poll_read, nd_poll_read)]
fn c04_poll_next_identity_step() {
    let n: usize = kani::any();
    kani::assume(n >= 1 && n <= IDENTITY_CAP);
    let mut s = fresh(ProtocolCodec::Identity(n));
    s.read_buffer = BytesMut::zeroed(n);       // the state after the first delivered frame
    let off: usize = kani::any();
    kani::assume(off < n);
    s.offset = off;
    let r = cx_poll_next(&mut s);
    kani::cover!(matches!(r, Poll::Ready(Some(Ok(_)))));
    kani::cover!(matches!(r, Poll::Pending));
    match &r {
        Poll::Ready(Some(Ok(f))) => { assert!(f.len() == n); assert!(s.offset == 0); assert!(s.read_buffer.len() >= n); }
        Poll::Pending => { assert!(s.offset >= off && s.offset < n); assert!(s.read_buffer.len() >= n); }
        _ => {}
    }
    unsafe { assert!(READ_ASKED.v <= n - off); }
    core::mem::forget(r);
    core::mem::forget(s);
}

// ---- Stream::poll_next, length-prefixed frames ----------------------------------------------------------
static mut ZEROED_MAX: Tagged<usize> = Tagged { tag: 0x620049aa0d7a2bb, v: 0 };

/// prefix phase: one byte at a time; an oversized / malformed length is an error, never a panic, never an allocation
/// above the configured maximum.  Arbitrary prefix bytes already received (offset < 10).
#[kani::proof]
#[kani::unwind(13)]
#[kani::stub(<crate::transport::tcp::Substream as tokio::io::AsyncRead>::poll_read, nd_poll_read)]
fn c04_poll_next_varint_prefix_step() {
    let max: Option<usize> = if kani::any() { Some(kani::any()) } else { None };
    if let Some(m) = max { kani::assume(m <= 1 << 40); }
    let mut s = fresh(ProtocolCodec::UnsignedVarint(max));
    let prefix: [u8; 10] = kani::any();
    s.size_vec = BytesMut::from(&prefix[..]);
    let off: usize = kani::any();
    kani::assume(off < 10);
    // bytes received so far are continuation bytes (otherwise the prefix would have been complete already)
    let mut k = 0;
    while k < 10 { kani::assume(!(k < off) || prefix[k] & 0x80 != 0); k += 1; }
    s.offset = off;
    // without a maximum the announced size is only bounded by what the harness can allocate
    if max.is_none() { kani::assume(off == 0 && prefix[0] & 0x80 == 0 || (off == 1 && prefix[1] & 0x80 == 0) || prefix[off] & 0x80 != 0); }
    let r = cx_poll_next(&mut s);
    kani::cover!(matches!(r, Poll::Ready(Some(Err(_)))));
    kani::cover!(matches!(r, Poll::Ready(Some(Ok(_)))));
    kani::cover!(s.current_frame_size.is_some());
    unsafe { assert!(READ_CALLS.v == 0 || READ_ASKED.v <= 1 || s.current_frame_size.is_some()); }
    if let Some(sz) = s.current_frame_size {
        // P3: the announced size was accepted => within the limit, and the buffer was sized to exactly it
        if let Some(m) = max { assert!(sz <= m); }
        assert!(sz >= 1);
        assert!(s.read_buffer.len() == sz);
        assert!(s.offset < sz);
    }
    if let Poll::Ready(Some(Ok(f))) = &r {
        if let Some(m) = max { assert!(f.len() <= m); }
    }
    core::mem::forget(r);
    core::mem::forget(s);
}

/// body phase: inductive step on (offset, current_frame_size, read_buffer.len()):
/// current_frame_size = Some(sz) => read_buffer.len() = sz and offset < sz
#[kani::proof]
#[kani::unwind(4)]
#[kani::stub(<crate::transport::tcp::Substream as tokio::io::AsyncRead>::poll_read, nd_poll_read)]
fn c04_poll_next_varint_body_step() {
    let max: Option<usize> = if kani::any() { Some(kani::any()) } else { None };
    let sz: usize = kani::any();
    kani::assume(sz >= 1 && sz <= 1 << 40);
    if let Some(m) = max { kani::assume(sz <= m); }
    let mut s = fresh(ProtocolCodec::UnsignedVarint(max));
    s.read_buffer = BytesMut::zeroed(sz);
    s.current_frame_size = Some(sz);
    let off: usize = kani::any();
    kani::assume(off < sz);
    s.offset = off;
    let r = cx_poll_next(&mut s);
    kani::cover!(matches!(r, Poll::Ready(Some(Ok(_)))));
    kani::cover!(matches!(r, Poll::Pending));
    match &r {
        Poll::Ready(Some(Ok(f))) => {
            assert!(f.len() == sz);                       // P2: exactly the announced (<= max) size
            assert!(s.offset == 0 && s.current_frame_size.is_none());
        }
        Poll::Pending => {
            assert!(s.current_frame_size == Some(sz) && s.read_buffer.len() == sz && s.offset < sz && s.offset >= off);
        }
        _ => {}
    }
    core::mem::forget(r);
    core::mem::forget(s);
}

// ---- Sink<Bytes> ------------------------------------------------------------------------------------------
fn queued_bytes(s: &Substream) -> usize {
    let mut t = 0;
    let mut i = 0;
    while i < s.pending_out_frames.len() { t += s.pending_out_frames[i].len(); i += 1; }
    t + s.pending_out_frame.as_ref().map_or(0, |f| f.len())
}

/// start_send: refused exactly when the size is wrong / above the maximum, and then nothing is queued;
/// accepted => the queue grows by [varint(len)] ++ item.
#[kani::proof]
#[kani::unwind(13)]
fn c04_sink_start_send() {
    let idn: usize = kani::any();
    kani::assume(idn <= IDENTITY_CAP);     // the constructor allocates the frame buffer
    let codec = if kani::any() { ProtocolCodec::Identity(idn) } else {
        ProtocolCodec::UnsignedVarint(if kani::any() { Some(kani::any()) } else { None }) };
    let mut s = fresh(codec);
    static DATA: [u8; 300] = [0u8; 300];
    let len: usize = kani::any();
    kani::assume(len <= 300);
    let item = Bytes::from_static(&DATA[..len]);
    let r = Pin::new(&mut s).start_send(item);
    kani::cover!(r.is_err());
    kani::cover!(r.is_ok() && len == 0);
    kani::cover!(r.is_ok() && len >= 128);
    match codec {
        ProtocolCodec::Identity(n) => {
            assert!(r.is_err() == (len != n));
            if r.is_ok() { assert!(s.pending_out_frames.len() == 1 && s.pending_out_frames[0].len() == len); }
        }
        ProtocolCodec::UnsignedVarint(m) => {
            assert!(r.is_err() == (m.is_some() && len > m.unwrap()));
            if r.is_ok() {
                assert!(s.pending_out_frames.len() == 2);
                let p = &s.pending_out_frames[0];
                // the prefix is the minimal varint of len (len <= 300 => 1 or 2 bytes)
                if len < 128 { assert!(p.len() == 1 && p[0] as usize == len); }
                else { assert!(p.len() == 2 && (p[0] & 0x7f) as usize | ((p[1] as usize) << 7) == len && p[0] & 0x80 != 0 && p[1] & 0x80 == 0); }
                assert!(s.pending_out_frames[1].len() == len);
            }
        }
        _ => {}
    }
    if r.is_err() { assert!(s.pending_out_frames.is_empty() && s.pending_out_bytes == 0); }
    if r.is_ok() { assert!(s.pending_out_bytes == queued_bytes(&s)); }
    core::mem::forget(s);
}

/// "when a flush is reported complete the whole message has been handed to the transport":
/// Sink::poll_flush = Ready(Ok) => nothing is queued any more and the carrier confirmed ITS flush.
/// State: one partially written frame parked + up to one more queued frame (the state after a Pending).
#[kani::proof]
#[kani::unwind(5)]
#[kani::stub(<crate::transport::tcp::Substream as tokio::io::AsyncWrite>::poll_write, nd_poll_write)]
#[kani::stub(<crate::transport::tcp::Substream as tokio::io::AsyncWrite>::poll_flush, nd_poll_flush)]
fn c04_sink_flush_complete_means_drained() {
    let mut s = fresh(ProtocolCodec::UnsignedVarint(None));
    static DATA: [u8; 2] = [0u8; 2];
    let a: usize = kani::any();
    let b: usize = kani::any();
    kani::assume(a <= 2 && b <= 2);
    if a > 0 { s.pending_out_frame = Some(Bytes::from_static(&DATA[..a])); }
    if b > 0 { s.pending_out_frames.push_back(Bytes::from_static(&DATA[..b])); }
    s.pending_out_bytes = a + b;
    let waker = futures::task::noop_waker();
    let mut cx = Context::from_waker(&waker);
    let r = Sink::poll_flush(Pin::new(&mut s), &mut cx);
    kani::cover!(matches!(r, Poll::Ready(Ok(()))) && a + b > 0);
    kani::cover!(matches!(r, Poll::Pending));
    match r {
        Poll::Ready(Ok(())) => {
            assert!(s.pending_out_frame.is_none(), "[F2] flush reported complete while a frame is still parked");
            assert!(s.pending_out_frames.is_empty(), "[F2] flush reported complete while frames are still queued");
            unsafe { assert!(WRITE_TAKEN.v == a + b); assert!(FLUSH_OK.v); }
        }
        Poll::Pending => {
            // nothing is lost: what the carrier has not taken is still queued
            unsafe { assert!(queued_bytes(&s) + WRITE_TAKEN.v == a + b); }
        }
        Poll::Ready(Err(_)) => {}
    }
    core::mem::forget(s);
}

// ---- the direct framed-send path ------------------------------------------------------------------------
struct VerifIo { taken: usize, offered: usize, flushed: bool, polls_left: u8 }
impl AsyncWrite for VerifIo {
    fn poll_write(mut self: Pin<&mut Self>, _cx: &mut Context<'_>, buf: &[u8]) -> Poll<Result<usize, std::io::Error>> {
        if self.polls_left == 0 { return Poll::Pending; }
        self.polls_left -= 1;
        self.offered += buf.len();
        self.flushed = false;
        match kani::any::<u8>() % 3 {
            0 => Poll::Pending,
            1 => Poll::Ready(Err(ErrorKind::BrokenPipe.into())),
            _ => { let n: usize = kani::any(); kani::assume(n >= 1 && n <= buf.len()); self.taken += n; Poll::Ready(Ok(n)) }
        }
    }
    fn poll_flush(mut self: Pin<&mut Self>, _cx: &mut Context<'_>) -> Poll<Result<(), std::io::Error>> {
        if self.polls_left == 0 { return Poll::Pending; }
        self.polls_left -= 1;
        match kani::any::<u8>() % 3 { 0 => Poll::Pending, 1 => Poll::Ready(Err(ErrorKind::BrokenPipe.into())), _ => { self.flushed = true; Poll::Ready(Ok(())) } }
    }
    fn poll_shutdown(self: Pin<&mut Self>, _cx: &mut Context<'_>) -> Poll<Result<(), std::io::Error>> { Poll::Ready(Ok(())) }
}

fn poll_once<F: std::future::Future>(f: Pin<&mut F>) -> Poll<F::Output> {
    let waker = futures::task::noop_waker();
    let mut cx = Context::from_waker(&waker);
    f.poll(&mut cx)
}

/// send_identity_payload: wrong size => Err before any carrier call; Ok(()) => the carrier took exactly the payload and
/// then confirmed a flush.  Carrier parks after 4 polls (one poll of the future = arbitrary prefix of the exchange).
#[kani::proof]
#[kani::unwind(8)]
fn c04_send_identity_payload() {
    static DATA: [u8; 3] = [0u8; 3];
    let len: usize = kani::any();
    kani::assume(len <= 3);
    let n: usize = kani::any();
    let mut io = VerifIo { taken: 0, offered: 0, flushed: false, polls_left: 4 };
    let r = {
        let fut = Substream::send_identity_payload(&mut io, n, Bytes::from_static(&DATA[..len]));
        let mut fut = std::pin::pin!(fut);
        poll_once(fut.as_mut())
    };
    kani::cover!(matches!(r, Poll::Ready(Ok(()))));
    kani::cover!(matches!(r, Poll::Ready(Err(_))) && io.offered == 0);
    if len != n { assert!(matches!(r, Poll::Ready(Err(_)))); assert!(io.offered == 0); }
    if let Poll::Ready(Ok(())) = r { assert!(io.taken == len && io.flushed); }
}

/// send_unsigned_varint_payload: oversize => Err before any carrier call; Ok(()) => the carrier took
/// [varint(len)] ++ payload and then confirmed a flush.
#[kani::proof]
#[kani::unwind(8)]
fn c04_send_varint_payload() {
    static DATA: [u8; 3] = [0u8; 3];
    let len: usize = kani::any();
    kani::assume(len <= 3);
    let max: Option<usize> = if kani::any() { Some(kani::any()) } else { None };
    let mut io = VerifIo { taken: 0, offered: 0, flushed: false, polls_left: 5 };
    let r = {
        let fut = Substream::send_unsigned_varint_payload(&mut io, Bytes::from_static(&DATA[..len]), max);
        let mut fut = std::pin::pin!(fut);
        poll_once(fut.as_mut())
    };
    kani::cover!(matches!(r, Poll::Ready(Ok(()))));
    kani::cover!(matches!(r, Poll::Ready(Err(_))) && io.offered == 0);
    if let Some(m) = max { if len > m { assert!(matches!(r, Poll::Ready(Err(_)))); assert!(io.offered == 0); } }
    if let Poll::Ready(Ok(())) = r { assert!(io.taken == 1 + len && io.flushed); }
}

#[kani::proof]
fn c04_canary() {
    let x: u8 = kani::any();
    assert!(x != 7);
}
