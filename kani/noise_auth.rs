//@ module src/crypto/noise/mod.rs
//@ harness c01_parse_and_verify_contract kind=bounded tier=quick timeout=1200 covers=4 bound="identity key and signature of 0..=4 bytes (content symbolic, 32-byte DH key symbolic); the unbounded proof is the Verus unit noise_auth — this harness adds the literal domain string and the real Vec/concat code"
//@ harness c01_noise_auth_canary kind=canary tier=quick timeout=120
//
// C01 — the identity check of the Noise handshake: parse_and_verify_peer_id(payload, dh_remote_pubkey).
// Key parsing, signature verification and peer-id hashing are UNINTERPRETED functions (recording stubs): the
// obligations are about wiring — what is parsed, what is verified over which message with which signature, and
// which bytes the reported peer id is derived from.  Content of key/signature only flows into the stubs, which
// compare what they receive with the harness' symbols, so the result holds for every content.
use super::*;

static mut PARSE_CALLS: u8 = 0;
static mut VRFY_CALLS: u8 = 0;
static mut PID_CALLS: u8 = 0;
static mut PARSE_ARG_OK: bool = false;
static mut PARSE_RET_OK: bool = false;
static mut VRFY_MSG_OK: bool = false;
static mut VRFY_SIG_OK: bool = false;
static mut VRFY_RET: bool = false;
static mut PID_ARG_OK: bool = false;
static mut K: [u8; 4] = [0; 4];
static mut KLEN: usize = 0;
static mut S: [u8; 4] = [0; 4];
static mut SLEN: usize = 0;
static mut DH: [u8; 32] = [0; 32];

fn same(a: &[u8], b: &[u8]) -> bool {
    if a.len() != b.len() { return false; }
    let mut i = 0;
    while i < a.len() { if a[i] != b[i] { return false; } i += 1; }
    true
}
/// `parse`: uninterpreted; may fail
fn stub_parse(bytes: &[u8]) -> Result<RemotePublicKey, ParseError> {
    unsafe { PARSE_CALLS += 1; PARSE_ARG_OK = same(bytes, &K[..KLEN]); }
    if kani::any() {
        unsafe { PARSE_RET_OK = false; }
        Err(ParseError::InvalidPublicKey)
    } else {
        unsafe { PARSE_RET_OK = true; }
        // fabricated key object: never read (verify is stubbed), never dropped
        Ok(unsafe { core::mem::MaybeUninit::uninit().assume_init() })
    }
}
/// `vrfy`: uninterpreted; records the message and the signature it was given
fn stub_verify(_this: &RemotePublicKey, msg: &[u8], sig: &[u8]) -> bool {
    unsafe {
        VRFY_CALLS += 1;
        let dom = b"noise-libp2p-static-key:";       // written out from the spec, not taken from the crate's constant
        VRFY_MSG_OK = msg.len() == dom.len() + 32 && same(&msg[..dom.len()], dom) && same(&msg[dom.len()..], &DH);
        VRFY_SIG_OK = same(sig, &S[..SLEN]);
        VRFY_RET = kani::any();
        VRFY_RET
    }
}
/// `pid`: uninterpreted hash of the encoded key
fn stub_pid(key_enc: &[u8]) -> PeerId {
    unsafe { PID_CALLS += 1; PID_ARG_OK = same(key_enc, &K[..KLEN]); }
    PeerId::from_bytes(&[0u8, 1, 42]).unwrap()
}

#[kani::proof]
#[kani::unwind(60)]
#[kani::stub(RemotePublicKey::from_protobuf_encoding, stub_parse)]
#[kani::stub(RemotePublicKey::verify, stub_verify)]
#[kani::stub(PeerId::from_public_key_protobuf, stub_pid)]
fn c01_parse_and_verify_contract() {
    let k: [u8; 4] = kani::any();
    let klen: usize = kani::any();
    kani::assume(klen <= 4);
    let s: [u8; 4] = kani::any();
    let slen: usize = kani::any();
    kani::assume(slen <= 4);
    let dh: [u8; 32] = kani::any();
    unsafe { K = k; KLEN = klen; S = s; SLEN = slen; DH = dh; }
    let has_k: bool = kani::any();
    let has_s: bool = kani::any();
    let payload = handshake_schema::NoiseHandshakePayload {
        identity_key: if has_k { Some(k[..klen].to_vec()) } else { None },
        identity_sig: if has_s { Some(s[..slen].to_vec()) } else { None },
        ..Default::default()
    };
    let r = parse_and_verify_peer_id(payload, &dh);
    kani::cover!(r.is_ok());
    kani::cover!(matches!(r, Err(NegotiationError::PeerIdMissing)));
    kani::cover!(matches!(r, Err(NegotiationError::BadSignature)) && has_s);
    kani::cover!(matches!(r, Err(NegotiationError::BadSignature)) && !has_s);
    unsafe {
        match &r {
            Ok(p) => {
                // a peer id is reported only if ...
                assert!(has_k && has_s);                                   // identity key and signature present
                assert!(PARSE_CALLS == 1 && PARSE_ARG_OK && PARSE_RET_OK); // the key was parsed from the identity bytes
                assert!(VRFY_CALLS == 1);                                  // the signature was checked, once,
                assert!(VRFY_MSG_OK);                                      //   over DOMAIN || this session's static DH key
                assert!(VRFY_SIG_OK);                                      //   with the payload's signature
                assert!(VRFY_RET);                                         //   and the check succeeded
                assert!(PID_CALLS >= 1 && PID_ARG_OK);                     // the id is derived from the SAME identity bytes
                assert!(*p == PeerId::from_bytes(&[0u8, 1, 42]).unwrap());
            }
            Err(e) => {
                if !has_k { assert!(matches!(e, NegotiationError::PeerIdMissing)); assert!(PARSE_CALLS == 0 && VRFY_CALLS == 0); }
                if has_k && has_s && PARSE_RET_OK && VRFY_CALLS == 1 { assert!(!VRFY_RET); assert!(matches!(e, NegotiationError::BadSignature)); }
                if has_k && PARSE_RET_OK && !has_s { assert!(matches!(e, NegotiationError::BadSignature)); assert!(VRFY_CALLS == 0); }
            }
        }
        // completeness: a well-formed, correctly signed payload is accepted
        if has_k && has_s && PARSE_CALLS == 1 && PARSE_RET_OK && VRFY_CALLS == 1 && VRFY_RET { assert!(r.is_ok()); }
    }
    core::mem::forget(r);
}

#[kani::proof]
fn c01_noise_auth_canary() {
    let x: u8 = kani::any();
    assert!(x != 7);
}
