//@ module src/crypto/noise/mod.rs
//@ harness c01_parse_and_verify_contract kind=bounded tier=quick timeout=1200 covers=4 bound="identity key and signature of 0..=4 bytes (content symbolic, 32-byte DH.v key symbolic); the unbounded proof is the Verus unit noise_auth — this harness adds the literal domain string and the real Vec/concat code"
//@ harness c01_noise_auth_canary kind=canary tier=quick timeout=120
//
// C01 — the identity check of the Noise handshake: parse_and_verify_peer_id(payload, dh_remote_pubkey).
// Key parsing, signature verification and peer-id hashing are UNINTERPRETED functions (recording stubs): the
// obligations are about wiring — what is parsed, what is verified over which message with which signature, and
// which bytes the reported peer id is derived from.  Content of key/signature only flows into the stubs, which
// compare what they receive with the harness' symbols, so the result holds for every content.
use super::*;

/// Every mutable static of this file carries a unique tag next to its value.  Kani 0.68 names a constant allocation
/// after the first global with the same bytes, so an all-zero `static mut X: usize = 0` can become the storage of an
/// unrelated all-zero CONSTANT of the standard library (observed: alloc::raw_vec::ZERO_CAP read from a harness
/// counter, depending on the crate hash and therefore on the path of the checkout).  A unique tag makes the bytes of
/// each static unique, so no constant can be merged with it.
#[repr(C)]
struct Tagged<T> { tag: u64, v: T }


static mut PARSE_CALLS: Tagged<u8> = Tagged { tag: 0xbca6c47d68e9ec3, v: 0 };
static mut VRFY_CALLS: Tagged<u8> = Tagged { tag: 0x14844418548fd6d, v: 0 };
static mut PID_CALLS: Tagged<u8> = Tagged { tag: 0x2115ea0a7c89251, v: 0 };
static mut PARSE_ARG_OK: Tagged<bool> = Tagged { tag: 0x37c53da3ebe079, v: false };
static mut PARSE_RET_OK: Tagged<bool> = Tagged { tag: 0xdf0e5029f62761b, v: false };
static mut VRFY_MSG_OK: Tagged<bool> = Tagged { tag: 0x9000d2f7d3113b1, v: false };
static mut VRFY_SIG_OK: Tagged<bool> = Tagged { tag: 0xe1b4d113371ea1f, v: false };
static mut VRFY_RET: Tagged<bool> = Tagged { tag: 0xa9f1ef736278d85, v: false };
static mut PID_ARG_OK: Tagged<bool> = Tagged { tag: 0x2652fff43453a2b, v: false };
static mut K: Tagged<[u8; 4]> = Tagged { tag: 0x3ce012b90136be9, v: [0; 4] };
static mut KLEN: Tagged<usize> = Tagged { tag: 0xbbac188617ff939, v: 0 };
static mut S: Tagged<[u8; 4]> = Tagged { tag: 0x2864d8fce4652ab, v: [0; 4] };
static mut SLEN: Tagged<usize> = Tagged { tag: 0x99634cfb714d5db, v: 0 };
static mut DH: Tagged<[u8; 32]> = Tagged { tag: 0xe0429304c5ec4d1, v: [0; 32] };

fn same(a: &[u8], b: &[u8]) -> bool {
    if a.len() != b.len() { return false; }
    let mut i = 0;
    while i < a.len() { if a[i] != b[i] { return false; } i += 1; }
    true
}
/// `parse`: uninterpreted; may fail
fn stub_parse(bytes: &[u8]) -> Result<RemotePublicKey, ParseError> {
    unsafe { PARSE_CALLS.v += 1; PARSE_ARG_OK.v = same(bytes, &K.v[..KLEN.v]); }
    if kani::any() {
        unsafe { PARSE_RET_OK.v = false; }
        Err(ParseError::InvalidPublicKey)
    } else {
        unsafe { PARSE_RET_OK.v = true; }
        // fabricated key object: never read (verify is stubbed), never dropped
        Ok(unsafe { core::mem::MaybeUninit::uninit().assume_init() })
    }
}
/// `vrfy`: uninterpreted; records the message and the signature it was given
fn stub_verify(_this: &RemotePublicKey, msg: &[u8], sig: &[u8]) -> bool {
    unsafe {
        VRFY_CALLS.v += 1;
        let dom = b"noise-libp2p-static-key:";       // written out from the spec, not taken from the crate's constant
        VRFY_MSG_OK.v = msg.len() == dom.len() + 32 && same(&msg[..dom.len()], dom) && same(&msg[dom.len()..], &DH.v);
        VRFY_SIG_OK.v = same(sig, &S.v[..SLEN.v]);
        VRFY_RET.v = kani::any();
        VRFY_RET.v
    }
}
/// `pid`: uninterpreted hash of the encoded key
fn stub_pid(key_enc: &[u8]) -> PeerId {
    unsafe { PID_CALLS.v += 1; PID_ARG_OK.v = same(key_enc, &K.v[..KLEN.v]); }
    PeerId::from_bytes(&[0u8, 1, 42]).unwrap()
}

#[kani::proof]
#[kani::unwind(60)]
#[kani::stub(RemotePublicKey::from_protobuf_encoding, stub_parse)]
#[kani::stub(RemotePublicKey::verify, stub_verify)]
#[kani::stub(PeerId::from_public_key_protobuf, stub_pid)]
fn c01_parse_and_verify_contract() {
    let k: [u8; 4] = kani::any();
    let klen: usize = kani::any();
    kani::assume(klen <= 4);
    let s: [u8; 4] = kani::any();
    let slen: usize = kani::any();
    kani::assume(slen <= 4);
    let dh: [u8; 32] = kani::any();
    unsafe { K.v = k; KLEN.v = klen; S.v = s; SLEN.v = slen; DH.v = dh; }
    let has_k: bool = kani::any();
    let has_s: bool = kani::any();
    let payload = handshake_schema::NoiseHandshakePayload {
        identity_key: if has_k { Some(k[..klen].to_vec()) } else { None },
        identity_sig: if has_s { Some(s[..slen].to_vec()) } else { None },
        ..Default::default()
    };
    let r = parse_and_verify_peer_id(payload, &dh);
    kani::cover!(r.is_ok());
    kani::cover!(matches!(r, Err(NegotiationError::PeerIdMissing)));
    kani::cover!(matches!(r, Err(NegotiationError::BadSignature)) && has_s);
    kani::cover!(matches!(r, Err(NegotiationError::BadSignature)) && !has_s);
    unsafe {
        match &r {
            Ok(p) => {
                // a peer id is reported only if ...
                assert!(has_k && has_s);                                   // identity key and signature present
                assert!(PARSE_CALLS.v == 1 && PARSE_ARG_OK.v && PARSE_RET_OK.v); // the key was parsed from the identity bytes
                assert!(VRFY_CALLS.v == 1);                                  // the signature was checked, once,
                assert!(VRFY_MSG_OK.v);                                      //   over DOMAIN || this session's static DH.v key
                assert!(VRFY_SIG_OK.v);                                      //   with the payload's signature
                assert!(VRFY_RET.v);                                         //   and the check succeeded
                assert!(PID_CALLS.v >= 1 && PID_ARG_OK.v);                     // the id is derived from the SAME identity bytes
                assert!(*p == PeerId::from_bytes(&[0u8, 1, 42]).unwrap());
            }
            Err(e) => {
                if !has_k { assert!(matches!(e, NegotiationError::PeerIdMissing)); assert!(PARSE_CALLS.v == 0 && VRFY_CALLS.v == 0); }
                if has_k && has_s && PARSE_RET_OK.v && VRFY_CALLS.v == 1 { assert!(!VRFY_RET.v); assert!(matches!(e, NegotiationError::BadSignature)); }
                if has_k && PARSE_RET_OK.v && !has_s { assert!(matches!(e, NegotiationError::BadSignature)); assert!(VRFY_CALLS.v == 0); }
            }
        }
        // completeness: a well-formed, correctly signed payload is accepted
        if has_k && has_s && PARSE_CALLS.v == 1 && PARSE_RET_OK.v && VRFY_CALLS.v == 1 && VRFY_RET.v { assert!(r.is_ok()); }
    }
    core::mem::forget(r);
}

#[kani::proof]
fn c01_noise_auth_canary() {
    let x: u8 = kani::any();
    assert!(x != 7);
}
