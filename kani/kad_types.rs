//@ module src/protocol/libp2p/kademlia/types.rs
//@ harness c14_u256_bit_semantics kind=proof tier=quick timeout=600
//@ harness c14_ilog2_contract kind=proof tier=quick timeout=900 covers=2
//@ harness c14_key_distance_is_xor kind=proof tier=quick timeout=900
//@ harness c14_distance_order_is_msb_first kind=proof tier=quick timeout=900
//@ harness c19_connection_type_total kind=proof tier=quick timeout=300
//@ harness c14_kad_types_canary kind=canary tier=quick timeout=120
//
// C14 — the assumed semantics of uint::U256 (bit / leading_zeros / Ord / ^) cross-checked against the real
// macro expansion, Distance::ilog2, and Key::distance.  Also exports key fabrication helpers for the
// routing_table / bucket harnesses (Key's fields are private to this module).
use super::*;

pub(crate) fn fab_key(peer: PeerId, bytes: [u8; 32]) -> Key<PeerId> {
    Key { preimage: peer, bytes: KeyBytes(Array::from(bytes)) }
}
pub(crate) fn fab_key_vec(bytes: [u8; 32]) -> Key<Vec<u8>> {
    Key { preimage: Vec::new(), bytes: KeyBytes(Array::from(bytes)) }
}
pub(crate) fn key_bytes<T: Clone>(k: &Key<T>) -> [u8; 32] {
    let mut out = [0u8; 32];
    out.copy_from_slice(k.bytes.0.as_slice());
    out
}
/// bit k (0 = least significant) of a 32-byte big-endian key
pub(crate) fn key_bit(b: &[u8; 32], k: usize) -> bool {
    (b[31 - k / 8] >> (k % 8)) & 1 == 1
}
/// bit k of four little-endian limbs — the mathematical meaning of U256::bit
pub(crate) fn limb_bit(l: &[u64; 4], k: usize) -> bool {
    (l[k / 64] >> (k % 64)) & 1 == 1
}

/// U256::bit(k) is bit k of the little-endian limb array, for every value and every k < 256
#[kani::proof]
fn c14_u256_bit_semantics() {
    let l: [u64; 4] = kani::any();
    let k: usize = kani::any();
    kani::assume(k < 256);
    assert!(U256(l).bit(k) == limb_bit(&l, k));
}

/// Distance::ilog2: None <=> d = 0;  Some(h) => bit h set, no higher bit set, h < 256.   [X]
#[kani::proof]
#[kani::unwind(34)]
fn c14_ilog2_contract() {
    let l: [u64; 4] = kani::any();
    let d = Distance(U256(l));
    let r = d.ilog2();
    kani::cover!(r.is_none());
    kani::cover!(r == Some(255));
    match r {
        None => assert!(l == [0u64; 4]),
        Some(h) => {
            assert!(h < 256);
            assert!(limb_bit(&l, h as usize));
            let k: usize = kani::any();      // universally quantified witness
            kani::assume(k < 256 && k > h as usize);
            assert!(!limb_bit(&l, k));
        }
    }
    if l == [0u64; 4] { assert!(r.is_none()); }
}

/// Key::distance is the bitwise XOR of the two 32-byte keys read big-endian (bit k, for every k)
#[kani::proof]
#[kani::unwind(34)]
fn c14_key_distance_is_xor() {
    let a: [u8; 32] = kani::any();
    let b: [u8; 32] = kani::any();
    let ka = fab_key_vec(a);
    let kb = fab_key_vec(b);
    let d = ka.distance(&kb);
    let k: usize = kani::any();
    kani::assume(k < 256);
    assert!(limb_bit(&d.0 .0, k) == (key_bit(&a, k) ^ key_bit(&b, k)));
    core::mem::forget(ka);
    core::mem::forget(kb);
}

/// Ord on Distance is the numeric (most-significant-bit first) order of the 256-bit value
#[kani::proof]
#[kani::unwind(34)]
fn c14_distance_order_is_msb_first() {
    let x: [u64; 4] = kani::any();
    let y: [u64; 4] = kani::any();
    let lt = Distance(U256(x)) < Distance(U256(y));
    // reference: compare limbs from the most significant one
    let mut expect = false;
    let mut decided = false;
    let mut i = 4;
    while i > 0 {
        i -= 1;
        if !decided && x[i] != y[i] {
            expect = x[i] < y[i];
            decided = true;
        }
    }
    assert!(lt == expect);
    assert!((Distance(U256(x)) == Distance(U256(y))) == (x == y));
}

/// ConnectionType::try_from(i32) is total and inverse to the encoder, for every i32
#[kani::proof]
fn c19_connection_type_total() {
    let v: i32 = kani::any();
    match ConnectionType::try_from(v) {
        Ok(c) => { assert!(v >= 0 && v <= 3); assert!(i32::from(c) == v); }
        Err(()) => assert!(v < 0 || v > 3),
    }
}

#[kani::proof]
fn c14_kad_types_canary() {
    let x: u8 = kani::any();
    assert!(x != 7);
}
