//@ module src/multistream_select/length_delimited.rs
//@ harness c03_ld_read_length_step kind=proof tier=quick timeout=1800 covers=3
//@ harness c03_ld_read_data_step kind=proof tier=quick timeout=1800 covers=2
//@ harness c03_ld_write_buffer_step kind=bounded tier=quick timeout=1800 covers=2 bound="write buffer of 0..=64 bytes, one carrier poll"
//@ harness c03_ld_canary kind=canary tier=quick timeout=120
//
// C03 (transparency) / C19 — LengthDelimited<R>: the frame reader of the stream variant of multistream-select.
// R = VerifIo is the carrier CONTRACT.  One poll from an arbitrary ReadState is the inductive step: the reader asks
// the carrier for exactly ONE byte while reading a length prefix and for at most the REST OF THE CURRENT FRAME while
// reading data, so no byte past the end of a negotiation frame is ever consumed, for every fragmentation.
use super::*;

struct VerifIo { polls_left: u8, asked: [usize; 3], calls: usize, taken: usize }
impl AsyncRead for VerifIo {
    fn poll_read(mut self: Pin<&mut Self>, _cx: &mut Context<'_>, buf: &mut [u8]) -> Poll<io::Result<usize>> {
        if self.polls_left == 0 { return Poll::Pending; }
        self.polls_left -= 1;
        let c = self.calls;
        self.asked[c] = buf.len();
        self.calls += 1;
        match kani::any::<u8>() % 3 {
            0 => Poll::Pending,
            1 => Poll::Ready(Err(io::ErrorKind::BrokenPipe.into())),
            _ => {
                let n: usize = kani::any();
                kani::assume(n <= buf.len());
                // arbitrary bytes arrive
                if n >= 1 { buf[0] = kani::any(); }
                Poll::Ready(Ok(n))
            }
        }
    }
}
impl AsyncWrite for VerifIo {
    fn poll_write(mut self: Pin<&mut Self>, _cx: &mut Context<'_>, buf: &[u8]) -> Poll<io::Result<usize>> {
        if self.polls_left == 0 { return Poll::Pending; }
        self.polls_left -= 1;
        match kani::any::<u8>() % 3 {
            0 => Poll::Pending,
            1 => Poll::Ready(Err(io::ErrorKind::BrokenPipe.into())),
            _ => { let n: usize = kani::any(); kani::assume(n <= buf.len()); self.taken += n; Poll::Ready(Ok(n)) }
        }
    }
    fn poll_flush(self: Pin<&mut Self>, _cx: &mut Context<'_>) -> Poll<io::Result<()>> { Poll::Ready(Ok(())) }
    fn poll_close(self: Pin<&mut Self>, _cx: &mut Context<'_>) -> Poll<io::Result<()>> { Poll::Ready(Ok(())) }
}
fn io(polls: u8) -> VerifIo { VerifIo { polls_left: polls, asked: [0; 3], calls: 0, taken: 0 } }
fn poll_next_once(ld: &mut LengthDelimited<VerifIo>) -> Poll<Option<Result<Bytes, io::Error>>> {
    let waker = futures::task::noop_waker();
    let mut cx = Context::from_waker(&waker);
    Pin::new(ld).poll_next(&mut cx)
}

/// prefix phase (pos in {0,1}; a byte already received is a continuation byte)
#[kani::proof]
#[kani::unwind(4)]
fn c03_ld_read_length_step() {
    let mut ld = LengthDelimited::new(io(2));
    let b0: u8 = kani::any();
    let pos: usize = kani::any();
    kani::assume(pos <= 1);
    kani::assume(pos == 0 || b0 & 0x80 != 0);
    ld.read_state = ReadState::ReadLength { buf: [if pos == 1 { b0 } else { 0 }, 0], pos };
    let r = poll_next_once(&mut ld);
    kani::cover!(matches!(r, Poll::Ready(Some(Err(_)))));
    kani::cover!(matches!(ld.read_state, ReadState::ReadData { .. }));
    kani::cover!(matches!(r, Poll::Ready(Some(Ok(_)))));
    // byte-at-a-time: every request made while in the prefix phase asks for exactly one byte
    assert!(ld.inner.calls == 0 || ld.inner.asked[0] == 1);
    match ld.read_state {
        ReadState::ReadData { len, pos } => {
            // a frame length was accepted: 1..=16383, buffer sized to exactly the frame, and a request made in the
            // data phase is bounded by the frame
            assert!(len >= 1 && len <= MAX_FRAME_SIZE);
            assert!(ld.read_buffer.len() == len as usize);
            assert!(pos < len as usize);
            if ld.inner.calls == 2 { assert!(ld.inner.asked[1] <= len as usize); }
        }
        ReadState::ReadLength { buf, pos } => {
            assert!(pos <= 1 || matches!(r, Poll::Ready(Some(Err(_)))));
            if pos == 1 && !matches!(r, Poll::Ready(Some(_))) { assert!(buf[0] & 0x80 != 0); }
        }
    }
    if let Poll::Ready(Some(Ok(f))) = &r {
        // a frame completed within this poll: empty frame, or a frame whose whole body arrived
        assert!(ld.read_buffer.is_empty());
        assert!(matches!(ld.read_state, ReadState::ReadLength { pos: 0, .. }));
        assert!(f.len() <= MAX_FRAME_SIZE as usize);
    }
    core::mem::forget(r);
    core::mem::forget(ld);
}

/// data phase: arbitrary (len, pos < len)
#[kani::proof]
#[kani::unwind(4)]
fn c03_ld_read_data_step() {
    let mut ld = LengthDelimited::new(io(1));
    let len: u16 = kani::any();
    kani::assume(len >= 1 && len <= MAX_FRAME_SIZE);
    let pos: usize = kani::any();
    kani::assume(pos < len as usize);
    ld.read_buffer.resize(len as usize, 0);
    ld.read_state = ReadState::ReadData { len, pos };
    let r = poll_next_once(&mut ld);
    kani::cover!(matches!(r, Poll::Ready(Some(Ok(_)))));
    kani::cover!(matches!(r, Poll::Pending));
    // never asks for a byte beyond the current frame
    assert!(ld.inner.calls == 1 && ld.inner.asked[0] == len as usize - pos);
    match &r {
        Poll::Ready(Some(Ok(f))) => {
            assert!(f.len() == len as usize);
            assert!(ld.read_buffer.is_empty());
            assert!(matches!(ld.read_state, ReadState::ReadLength { pos: 0, buf: [0, 0] }));
        }
        Poll::Pending => match ld.read_state {
            ReadState::ReadData { len: l2, pos: p2 } => { assert!(l2 == len && p2 >= pos && p2 < len as usize); assert!(ld.read_buffer.len() == len as usize); }
            _ => assert!(false),
        },
        _ => {}
    }
    core::mem::forget(r);
    core::mem::forget(ld);
}

// Sink::start_send (refusal above 16383 bytes, prefix encoding) was tried and withdrawn: `BufMut::put(Bytes)` goes
// through Bytes' vtable and two harness shapes (<= 300 bytes; around the limit) did not finish in 15 min each.

/// poll_write_buffer = Ready(Ok) => the write buffer is empty (so into_inner's asserts cannot fire after a flush);
/// Pending => what the carrier has not taken is still buffered
#[kani::proof]
#[kani::unwind(4)]
fn c03_ld_write_buffer_step() {
    let mut ld = LengthDelimited::new(io(1));
    let n: usize = kani::any();
    kani::assume(n <= 64);
    ld.write_buffer.resize(n, 0);
    let waker = futures::task::noop_waker();
    let mut cx = Context::from_waker(&waker);
    let r = Pin::new(&mut ld).poll_write_buffer(&mut cx);
    kani::cover!(matches!(r, Poll::Ready(Ok(()))) && n > 0);
    kani::cover!(matches!(r, Poll::Pending));
    match &r {
        Poll::Ready(Ok(())) => { assert!(ld.write_buffer.is_empty()); assert!(ld.inner.taken == n); }
        Poll::Pending => assert!(ld.write_buffer.len() + ld.inner.taken == n),
        _ => {}
    }
    core::mem::forget(r);
    core::mem::forget(ld);
}

#[kani::proof]
fn c03_ld_canary() {
    let x: u8 = kani::any();
    assert!(x != 7);
}
