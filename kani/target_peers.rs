//@ module src/protocol/libp2p/kademlia/query/target_peers.rs
//@ harness c16_new_quorum_empty_targets kind=proof tier=quick timeout=900 covers=3
//@ harness c16_target_peers_canary kind=canary tier=quick timeout=120
//
// C16 — PutToTargetPeersContext::new (the one function of target_peers.rs outside Verus' subset): how many
// acknowledged sends the operation needs.  "A put or announcement reports success only if the requested quorum of
// peers was actually sent the data" requires in particular that the requirement is NEVER zero.
use super::*;
use std::num::NonZeroUsize;

fn stub_rs_new() -> std::hash::RandomState { unsafe { core::mem::transmute::<[u64; 2], std::hash::RandomState>([0, 0]) } }

fn any_quorum() -> (Quorum, u8, usize) {
    let k: usize = kani::any();
    kani::assume(k >= 1);
    match kani::any::<u8>() % 3 {
        0 => (Quorum::One, 0, 0),
        1 => (Quorum::All, 1, 0),
        _ => (Quorum::N(NonZeroUsize::new(k).unwrap()), 2, k),
    }
}
fn expected(kind: u8, k: usize, n: usize) -> usize {
    let floor = if n == 0 { 1 } else { n };
    match kind { 0 => 1, 1 => floor, _ => if k < floor { k } else { floor } }
}
fn pid(b: u8) -> PeerId { PeerId::from_bytes(&[0u8, 1, b]).unwrap() }

/// no target peers at all: every quorum still requires at least one acknowledged send, so the operation cannot
/// report success without having sent anything.  (collect() of an empty vector performs no hashing.)
#[kani::proof]
#[kani::unwind(4)]
#[kani::stub(std::hash::RandomState::new, stub_rs_new)]
fn c16_new_quorum_empty_targets() {
    let (q, kind, k) = any_quorum();
    kani::cover!(kind == 0);
    kani::cover!(kind == 1);
    kani::cover!(kind == 2 && k > 1);
    let ctx = PutToTargetPeersContext::new(QueryId(kani::any()), RecordKey::from(vec![1u8]), Vec::new(), q);
    assert!(ctx.peers_to_succeed >= 1);
    assert!(ctx.peers_to_succeed == expected(kind, k, 0));
    assert!(ctx.n_succeeded == 0);
    assert!(ctx.pending_peers.is_empty());
    // consequence: tracking finishes at once and reports FAILURE, never success
    assert!(ctx.is_finished() && !ctx.is_succeded());
    core::mem::forget(ctx);
}

// A harness with 1 or 2 concrete target peers (real hash-set inserts, hasher stubbed to a constant) did not finish in
// 30 min: the quorum clamp for a NON-empty target set stays unverified.

#[kani::proof]
fn c16_target_peers_canary() {
    let x: u8 = kani::any();
    assert!(x != 7);
}
