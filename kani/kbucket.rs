//@ module src/protocol/libp2p/kademlia/bucket.rs
//@ harness c14_bucket_entry_full_3sym kind=bounded tier=quick timeout=1200 bound="bucket of exactly 20 nodes, 3 with symbolic key byte and connection state, 17 fixed Connected nodes with distinct keys"
//@ harness c14_closest_iter_sorted kind=witness tier=thorough timeout=1200 bound="bucket of 3 nodes with symbolic 2-byte key suffixes, symbolic target suffix, address-store emptiness by uninterpreted flag"
//@ harness c14_kbucket_canary kind=canary tier=quick timeout=120
//
// C14 — Kani cross-checks on the real KBucket (the unbounded proof of KBucket::entry is the Verus unit `kbucket`).
use super::*;

/// Every mutable static of this file carries a unique tag next to its value.  Kani 0.68 names a constant allocation
/// after the first global with the same bytes, so an all-zero `static mut X: usize = 0` can become the storage of an
/// unrelated all-zero CONSTANT of the standard library (observed: alloc::raw_vec::ZERO_CAP read from a harness
/// counter, depending on the crate hash and therefore on the path of the checkout).  A unique tag makes the bytes of
/// each static unique, so no constant can be merged with it.
#[repr(C)]
struct Tagged<T> { tag: u64, v: T }

use crate::protocol::libp2p::kademlia::types::verif_kad_types::{fab_key, key_bytes};
use crate::transport::manager::address::AddressStore;

pub(crate) fn stub_rs_new() -> std::hash::RandomState {
    unsafe { core::mem::transmute::<[u64; 2], std::hash::RandomState>([0, 0]) }
}
pub(crate) fn bucket_len(b: &KBucket) -> usize { b.nodes.len() }
pub(crate) fn empty_bucket() -> KBucket { KBucket { nodes: Vec::new() } }
pub(crate) fn push_node(b: &mut KBucket, n: KademliaPeer) { b.nodes.push(n) }
pub(crate) fn node_conn(b: &KBucket, i: usize) -> ConnectionType { b.nodes[i].connection }
pub(crate) fn mk_node(tag: u8, key: [u8; 32], c: ConnectionType) -> KademliaPeer {
    KademliaPeer { key: fab_key(pid(tag), key), peer: pid(tag), address_store: AddressStore::default(), connection: c }
}
pub(crate) fn any_conn_pub() -> ConnectionType { any_conn() }
pub(crate) fn pid(b: u8) -> PeerId { PeerId::from_bytes(&[0u8, 1, b]).unwrap() }
fn kb(tag: u8, x: u8) -> [u8; 32] { let mut k = [0u8; 32]; k[0] = tag; k[31] = x; k }
fn node(tag: u8, x: u8, c: ConnectionType) -> KademliaPeer {
    KademliaPeer { key: fab_key(pid(tag), kb(tag, x)), peer: pid(tag), address_store: AddressStore::default(), connection: c }
}
/// ASSUMED contract of KademliaPeer::new (reaches rand::thread_rng, SHA-256 and HashMap::with_capacity, none of which
/// Kani can compile/execute): fields are the arguments
pub(crate) fn stub_peer_new(peer: PeerId, _addresses: Vec<multiaddr::Multiaddr>, connection: ConnectionType) -> KademliaPeer {
    KademliaPeer { key: fab_key(peer, [0u8; 32]), peer, address_store: AddressStore::default(), connection }
}
pub(crate) fn stub_random() -> PeerId { pid(0) }
fn any_conn() -> ConnectionType {
    match kani::any::<u8>() % 4 { 0 => ConnectionType::NotConnected, 1 => ConnectionType::Connected, 2 => ConnectionType::CanConnect, _ => ConnectionType::CannotConnect }
}
fn replaceable(c: ConnectionType) -> bool { matches!(c, ConnectionType::NotConnected | ConnectionType::CannotConnect) }

/// full bucket: a connected peer is never handed out for replacement; NoSlot leaves the bucket untouched;
/// an existing key is always found.
#[kani::proof]
#[kani::unwind(34)]
#[kani::stub(std::hash::RandomState::new, stub_rs_new)]
#[kani::stub(KademliaPeer::new, stub_peer_new)]
#[kani::stub(PeerId::random, stub_random)]
fn c14_bucket_entry_full_3sym() {
    let mut nodes = Vec::with_capacity(20);
    let (x0, x1, x2): (u8, u8, u8) = (kani::any(), kani::any(), kani::any());
    let (c0, c1, c2) = (any_conn(), any_conn(), any_conn());
    nodes.push(node(1, x0, c0));
    nodes.push(node(2, x1, c1));
    let mut t = 3u8;
    while t < 20 { nodes.push(node(t, 0, ConnectionType::Connected)); t += 1; }
    nodes.push(node(20, x2, c2));
    let mut b = KBucket { nodes };
    let qt: u8 = kani::any();
    kani::assume(qt >= 1 && qt <= 21);
    let qx: u8 = kani::any();
    let present = (qt == 1 && qx == x0) || (qt == 2 && qx == x1) || (qt >= 3 && qt < 20 && qx == 0) || (qt == 20 && qx == x2);
    let any_repl = replaceable(c0) || replaceable(c1) || replaceable(c2);
    match b.entry(fab_key(pid(qt), kb(qt, qx))) {
        KBucketEntry::Occupied(p) => { assert!(present); assert!(key_bytes(&p.key) == kb(qt, qx)); }
        KBucketEntry::Vacant(p) => { assert!(!present); assert!(replaceable(p.connection)); assert!(any_repl); }
        KBucketEntry::NoSlot => { assert!(!present); assert!(!any_repl); }
        KBucketEntry::LocalNode => assert!(false),
    }
    assert!(b.nodes.len() == 20);
    core::mem::forget(b);
}

static mut EMPTY_FLAGS: Tagged<[bool; 4]> = Tagged { tag: 0x54499aa8abf0f1f, v: [false; 4] };
/// uninterpreted stand-in for AddressStore::is_empty: a store cannot be filled without hash-map inserts
fn stub_is_empty(_s: &AddressStore) -> bool { kani::any() }

/// closest_iter: yields nodes in non-decreasing distance to the target, only nodes of this bucket, no duplicates
#[kani::proof]
#[kani::unwind(36)]
#[kani::stub(std::hash::RandomState::new, stub_rs_new)]
fn c14_closest_iter_sorted() {
    let mut nodes = Vec::with_capacity(3);
    let xs: [u8; 3] = kani::any();
    kani::assume(xs[0] != xs[1] && xs[0] != xs[2] && xs[1] != xs[2]);
    nodes.push(node(1, xs[0], ConnectionType::Connected));
    nodes.push(node(1, xs[1], ConnectionType::Connected));
    nodes.push(node(1, xs[2], ConnectionType::Connected));
    let b = KBucket { nodes };
    let tx: u8 = kani::any();
    let target = fab_key(pid(9), kb(1, tx));
    let mut prev: Option<u8> = None;
    let mut count = 0;
    for n in b.closest_iter(&target) {
        let d = key_bytes(&n.key)[31] ^ tx;      // the keys differ from the target only in the last byte
        if let Some(p) = prev { assert!(p < d); }
        prev = Some(d);
        count += 1;
    }
    // all stores are empty (AddressStore::default()), so nothing may be yielded: peers without a known address are skipped
    assert!(count == 0);
    core::mem::forget(b);
    core::mem::forget(target);
}

#[kani::proof]
fn c14_kbucket_canary() {
    let x: u8 = kani::any();
    assert!(x != 7);
}
