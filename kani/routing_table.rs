//@ module src/protocol/libp2p/kademlia/routing_table.rs
//@ annotate src/protocol/libp2p/kademlia/routing_table.rs :: impl ClosestBucketsIter :: fn next_in
//@   #[cfg_attr(kani, kani::requires(i.0 <= 256))]
//@   #[cfg_attr(kani, kani::ensures(|r: &Option<BucketIndex>| verif_routing_table::next_in_post(&self.distance, i.0, r)))]
//@ end
//@ annotate src/protocol/libp2p/kademlia/routing_table.rs :: impl ClosestBucketsIter :: fn next_out
//@   #[cfg_attr(kani, kani::requires(i.0 < 256))]
//@   #[cfg_attr(kani, kani::ensures(|r: &Option<BucketIndex>| verif_routing_table::next_out_post(&self.distance, i.0, r)))]
//@ end
//@ harness c14_bucket_index_new kind=proof tier=quick timeout=900
//@ harness c14_contract_next_in_16 kind=bounded tier=thorough timeout=3000 bound="proof_for_contract of the annotated next_in, distance restricted to 16 low bits"
//@ harness c14_contract_next_out_16 kind=bounded tier=thorough timeout=3000 bound="proof_for_contract of the annotated next_out, 16 candidate positions"
//@ harness c14_next_modular kind=bounded tier=thorough timeout=3000 covers=3 bound="256-bit distance; caller verified against the callee contracts via stub_verified (unwind 258)"
//@ harness c14_next_in_contract_16 kind=bounded tier=quick timeout=900 bound="distance restricted to its low 16 bits, start index <= 16 (same code path as 256 bits; full width is the thorough harness)"
//@ harness c14_next_out_contract_16 kind=bounded tier=quick timeout=900 bound="distance has all bits above 15 set, start index >= 239 (16 candidate positions)"
//@ harness c14_next_in_contract kind=proof tier=thorough timeout=3000
//@ harness c14_next_out_contract kind=proof tier=thorough timeout=3000
//@ harness c14_iter_no_duplicate_4 kind=witness tier=quick timeout=1200
//@ harness c14_rt_canary kind=canary tier=quick timeout=120
//
// C14 — cross-tool contracts of the iterator helpers (assumed by the Verus unit `closest_iter`, proved here on the
// real functions), and RoutingTable::entry.
use super::*;
use crate::protocol::libp2p::kademlia::types::verif_kad_types::limb_bit;

fn dist(l: [u64; 4]) -> Distance { Distance(U256(l)) }

// ---- Kani function contracts (the modular route): the postconditions below are attached to the REAL next_in /
// next_out in the scratch copy (add-only `#[cfg_attr(kani, kani::ensures(..))]` lines), proved by
// `proof_for_contract` harnesses, and then `next()` is verified against them with `stub_verified` — the caller sees
// only the callee's contract, not its body.  Quantifier-free rendering: Some(j) pins j to the closed form
// "highest set bit below i" / "lowest clear bit above i" computed on the limbs.
fn highest_set_below(l: &[u64; 4], i: usize) -> Option<usize> {
    let mut k = i;
    let mut r = None;
    while k > 0 { k -= 1; if r.is_none() && limb_bit(l, k) { r = Some(k); } }
    r
}
fn lowest_clear_above(l: &[u64; 4], i: usize) -> Option<usize> {
    let mut k = i + 1;
    let mut r = None;
    while k < 256 { if r.is_none() && !limb_bit(l, k) { r = Some(k); } k += 1; }
    r
}
pub(crate) fn next_in_post(d: &Distance, i: usize, r: &Option<BucketIndex>) -> bool {
    r.map(|b| b.0) == highest_set_below(&d.0 .0, i)
}
pub(crate) fn next_out_post(d: &Distance, i: usize, r: &Option<BucketIndex>) -> bool {
    r.map(|b| b.0) == lowest_clear_above(&d.0 .0, i)
}
impl kani::Arbitrary for BucketIndex {
    fn any() -> Self { let i: usize = kani::any(); kani::assume(i < 256); BucketIndex(i) }
}

#[kani::proof_for_contract(ClosestBucketsIter::next_in)]
#[kani::unwind(258)]
fn c14_contract_next_in_16() {
    let low: u16 = kani::any();
    let it = ClosestBucketsIter { distance: dist([low as u64, 0, 0, 0]), state: ClosestBucketsIterState::Done };
    let i: usize = kani::any();
    kani::assume(i <= 16);
    let _ = it.next_in(BucketIndex(i));
}
#[kani::proof_for_contract(ClosestBucketsIter::next_out)]
#[kani::unwind(258)]
fn c14_contract_next_out_16() {
    let hi: u16 = kani::any();
    let it = ClosestBucketsIter { distance: dist([u64::MAX, u64::MAX, u64::MAX, ((hi as u64) << 48) | 0x0000_ffff_ffff_ffff]), state: ClosestBucketsIterState::Done };
    let i: usize = kani::any();
    kani::assume(i >= 239 && i < 256);
    let _ = it.next_out(BucketIndex(i));
}

/// `next()` against the CONTRACTS of next_in / next_out only (stub_verified): the step relation of the Verus unit,
/// re-proved modularly by Kani for every 256-bit distance and every state.
#[kani::proof]
#[kani::stub_verified(ClosestBucketsIter::next_in)]
#[kani::stub_verified(ClosestBucketsIter::next_out)]
#[kani::unwind(258)]
fn c14_next_modular() {
    let l: [u64; 4] = kani::any();
    let i: usize = kani::any();
    kani::assume(i < 256);
    let st: u8 = kani::any();
    kani::assume(st < 3);
    let state = match st { 0 => ClosestBucketsIterState::Start(BucketIndex(i)), 1 => ClosestBucketsIterState::ZoomIn(BucketIndex(i)), _ => ClosestBucketsIterState::ZoomOut(BucketIndex(i)) };
    let mut it = ClosestBucketsIter { distance: dist(l), state };
    let r = it.next();
    kani::cover!(st == 1 && matches!(it.state, ClosestBucketsIterState::ZoomOut(_)));
    kani::cover!(st == 2 && r.is_none());
    kani::cover!(st == 1 && matches!(it.state, ClosestBucketsIterState::ZoomIn(_)));
    match st {
        0 => { assert!(r == Some(BucketIndex(i))); assert!(matches!(it.state, ClosestBucketsIterState::ZoomIn(b) if b.0 == i)); }
        1 => match highest_set_below(&l, i) {
            Some(j) => { assert!(r == Some(BucketIndex(j))); assert!(matches!(it.state, ClosestBucketsIterState::ZoomIn(b) if b.0 == j)); }
            None => { if i != 0 { assert!(r == Some(BucketIndex(0))); assert!(matches!(it.state, ClosestBucketsIterState::ZoomOut(b) if b.0 == 0)); } }
        },
        _ => match lowest_clear_above(&l, i) {
            Some(j) => { assert!(r == Some(BucketIndex(j))); assert!(matches!(it.state, ClosestBucketsIterState::ZoomOut(b) if b.0 == j)); }
            None => { assert!(r.is_none()); assert!(matches!(it.state, ClosestBucketsIterState::Done)); }
        },
    }
}

/// [X] BucketIndex::new: None <=> d = 0; Some(h) => h < 256, bit h set, no higher bit set
#[kani::proof]
#[kani::unwind(34)]
fn c14_bucket_index_new() {
    let l: [u64; 4] = kani::any();
    match BucketIndex::new(&dist(l)) {
        None => assert!(l == [0u64; 4]),
        Some(h) => {
            assert!(h.0 < 256);
            assert!(limb_bit(&l, h.0));
            let k: usize = kani::any();
            kani::assume(k < 256 && k > h.0);
            assert!(!limb_bit(&l, k));
            assert!(h.get() == h.0);
        }
    }
    if l == [0u64; 4] { assert!(BucketIndex::new(&dist(l)).is_none()); }
}

/// [X] next_in(i): Some(j) => j < i, bit j set, no set bit in (j, i);  None => no set bit below i
fn check_next_in(l: [u64; 4], i: usize) {
    let it = ClosestBucketsIter { distance: dist(l), state: ClosestBucketsIterState::Done };
    let r = it.next_in(BucketIndex(i));
    let k: usize = kani::any();          // universally quantified witness
    kani::assume(k < 256);
    match r {
        Some(j) => {
            assert!(j.0 < i);
            assert!(limb_bit(&l, j.0));
            if j.0 < k && k < i { assert!(!limb_bit(&l, k)); }
        }
        None => { if k < i { assert!(!limb_bit(&l, k)); } }
    }
}
/// [X] next_out(i): Some(j) => i < j < 256, bit j clear, all bits in (i, j) set;  None => all bits above i set
fn check_next_out(l: [u64; 4], i: usize) {
    let it = ClosestBucketsIter { distance: dist(l), state: ClosestBucketsIterState::Done };
    let r = it.next_out(BucketIndex(i));
    let k: usize = kani::any();
    kani::assume(k < 256);
    match r {
        Some(j) => {
            assert!(i < j.0 && j.0 < 256);
            assert!(!limb_bit(&l, j.0));
            if i < k && k < j.0 { assert!(limb_bit(&l, k)); }
        }
        None => { if i < k { assert!(limb_bit(&l, k)); } }
    }
}

#[kani::proof]
#[kani::unwind(18)]
fn c14_next_in_contract_16() {
    let low: u16 = kani::any();
    let i: usize = kani::any();
    kani::assume(i <= 16);
    check_next_in([low as u64, 0, 0, 0], i);
}
#[kani::proof]
#[kani::unwind(18)]
fn c14_next_out_contract_16() {
    let hi: u16 = kani::any();
    let i: usize = kani::any();
    kani::assume(i >= 239 && i < 256);
    check_next_out([u64::MAX, u64::MAX, u64::MAX, ((hi as u64) << 48) | 0x0000_ffff_ffff_ffff], i);
}
#[kani::proof]
#[kani::unwind(258)]
fn c14_next_in_contract() {
    let i: usize = kani::any();
    kani::assume(i < 256);
    check_next_in(kani::any(), i);
}
#[kani::proof]
#[kani::unwind(258)]
fn c14_next_out_contract() {
    let i: usize = kani::any();
    kani::assume(i < 256);
    check_next_out(kani::any(), i);
}

/// paired witness for the Verus obligation ClosestBucketsIter::next (run only to look for a concrete input when that
/// obligation fails in a way the known-findings file does not list): over the first 8 yields no bucket index is
/// yielded twice, distance restricted to its 4 low bits.  On the pinned tree it fails with d = 1 (F3).
#[kani::proof]
#[kani::unwind(12)]
fn c14_iter_no_duplicate_4() {
    let low: u8 = kani::any();
    kani::assume(low < 16);
    let mut it = ClosestBucketsIter::new(dist([low as u64, 0, 0, 0]));
    let probe: usize = kani::any();
    kani::assume(probe < 256);
    let mut seen = 0u32;
    let mut n = 0;
    while n < 8 {
        if let Some(b) = it.next() { if b.get() == probe { seen += 1; } }
        n += 1;
    }
    assert!(seen <= 1, "a bucket index is yielded twice");
}

// A harness for RoutingTable::on_connection_established ("a stored peer is marked Connected for either endpoint
// direction") was tried twice (RoutingTable::new; 256 allocation-free buckets) and timed out at 30 min both times.

#[kani::proof]
fn c14_rt_canary() {
    let x: u8 = kani::any();
    assert!(x != 7);
}
