//@ module src/crypto/noise/mod.rs
//@ harness c02_poll_write_step kind=bounded tier=quick timeout=1800 covers=4 bound="write length 0..=3 maximal frames (the encrypt buffer holds at most 2, so longer inputs take the same path as 3), write-buffer factor 1..=2; arbitrary write state"
//@ harness c02_poll_flush_step kind=proof tier=quick timeout=1800 covers=2
//@ harness c02_new_buffer_sizes kind=bounded tier=quick timeout=900 bound="read-ahead factor 1..=5, write-buffer factor 1..=2 (the shipped configuration space)"
//@ harness c02_noise_socket_canary kind=canary tier=quick timeout=120
//
// C02 — write path of NoiseSocket<S>.  S = VerifIo is the carrier CONTRACT (Pending | error | n <= len bytes);
// NoiseContext::write_message is the snow transport CONTRACT (needs out >= msg + 16, msg <= 65520; returns msg + 16)
// and records every chunk it is given.  One poll from an arbitrary state satisfying the write-state invariant is the
// inductive step over all write sizes, carrier behaviours and buffer configurations.
use super::*;

/// Every mutable static of this file carries a unique tag next to its value.  Kani 0.68 names a constant allocation
/// after the first global with the same bytes, so an all-zero `static mut X: usize = 0` can become the storage of an
/// unrelated all-zero CONSTANT of the standard library (observed: alloc::raw_vec::ZERO_CAP read from a harness
/// counter, depending on the crate hash and therefore on the path of the checkout).  A unique tag makes the bytes of
/// each static unique, so no constant can be merged with it.
#[repr(C)]
struct Tagged<T> { tag: u64, v: T }


/// Noise specification: a transport message is at most 65535 bytes, 16 of which are the AEAD tag
const SPEC_MAX_MSG: usize = 65535;
const SPEC_MAX_PLAINTEXT: usize = SPEC_MAX_MSG - 16;
const ELEN_UNIT: usize = MAX_NOISE_MSG_LEN + 2;

// ---- carrier contract --------------------------------------------------------------------------------------
pub(super) struct VerifIo { polls_left: u8 }
static mut IO_WRITES: Tagged<u8> = Tagged { tag: 0x534b7c233f702e3, v: 0 };
static mut IO_LAST_PTR: Tagged<usize> = Tagged { tag: 0x831cc2a86237807, v: 0 };
static mut IO_LAST_LEN: Tagged<usize> = Tagged { tag: 0x2886368c77580dd, v: 0 };
static mut IO_TAKEN: Tagged<usize> = Tagged { tag: 0x56ee058721bde73, v: 0 };
static mut IO_FLUSHED: Tagged<bool> = Tagged { tag: 0x8fd9894615b50db, v: false };

impl AsyncRead for VerifIo {
    fn poll_read(self: Pin<&mut Self>, _cx: &mut Context<'_>, _buf: &mut [u8]) -> Poll<io::Result<usize>> { Poll::Pending }
}
impl AsyncWrite for VerifIo {
    fn poll_write(mut self: Pin<&mut Self>, _cx: &mut Context<'_>, buf: &[u8]) -> Poll<io::Result<usize>> {
        // parks on its second poll: one drain iteration + re-entry of the drain loop
        if self.polls_left == 0 { return Poll::Pending; }
        self.polls_left -= 1;
        unsafe { IO_WRITES.v += 1; IO_LAST_PTR.v = buf.as_ptr() as usize; IO_LAST_LEN.v = buf.len(); }
        match kani::any::<u8>() % 3 {
            0 => Poll::Pending,
            1 => Poll::Ready(Err(io::ErrorKind::BrokenPipe.into())),
            _ => { let n: usize = kani::any(); kani::assume(n <= buf.len()); unsafe { IO_TAKEN.v = n; } Poll::Ready(Ok(n)) }
        }
    }
    fn poll_flush(self: Pin<&mut Self>, _cx: &mut Context<'_>) -> Poll<io::Result<()>> {
        match kani::any::<u8>() % 3 { 0 => Poll::Pending, 1 => Poll::Ready(Err(io::ErrorKind::BrokenPipe.into())), _ => { unsafe { IO_FLUSHED.v = true; } Poll::Ready(Ok(())) } }
    }
    fn poll_close(self: Pin<&mut Self>, _cx: &mut Context<'_>) -> Poll<io::Result<()>> { Poll::Ready(Ok(())) }
}

// ---- cipher contract ------------------------------------------------------------------------------------------
static mut CH_N: Tagged<usize> = Tagged { tag: 0xc50f18ca4659149, v: 0 };                 // chunks handed to the cipher
static mut CH_MSG_PTR: Tagged<[usize; 4]> = Tagged { tag: 0x2d4c0b8deea0421, v: [0; 4] };
static mut CH_MSG_LEN: Tagged<[usize; 4]> = Tagged { tag: 0xaa9dabdfb2ae763, v: [0; 4] };
static mut CH_OUT_PTR: Tagged<[usize; 4]> = Tagged { tag: 0xab2570ef8809927, v: [0; 4] };
static mut CH_RET: Tagged<[usize; 4]> = Tagged { tag: 0x6da75d06f38a059, v: [0; 4] };

fn cipher_write(_this: &mut NoiseContext, message: &[u8], out: &mut [u8]) -> Result<usize, snow::Error> {
    // preconditions of snow's TransportState::write_message: a caller that passes an oversize chunk or a short
    // output window fails the proof here
    assert!(message.len() + 16 <= SPEC_MAX_MSG, "chunk larger than a Noise message can carry");
    assert!(out.len() >= message.len() + 16, "output window too small for ciphertext + tag");
    unsafe {
        assert!(CH_N.v < 4);
        CH_MSG_PTR.v[CH_N.v] = message.as_ptr() as usize;
        CH_MSG_LEN.v[CH_N.v] = message.len();
        CH_OUT_PTR.v[CH_N.v] = out.as_ptr() as usize;
        if kani::any() { return Err(snow::Error::Input); }
        CH_RET.v[CH_N.v] = message.len() + 16;
        CH_N.v += 1;
    }
    Ok(message.len() + 16)
}

fn mk_socket(elen: usize, write_state: WriteState) -> NoiseSocket<VerifIo> {
    // fabricated cipher state: never read (write_message is stubbed), never dropped
    let noise: NoiseContext = unsafe { core::mem::MaybeUninit::uninit().assume_init() };
    NoiseSocket {
        io: VerifIo { polls_left: 1 }, noise, current_frame_size: None, write_state,
        encrypt_buffer: vec![0u8; elen], offset: 0, nread: 0,
        read_state: ReadState::ReadData { max_read: 0 }, read_buffer: Vec::new(), canonical_max_read: 0,
        decrypt_buffer: None, peer: PeerId::from_bytes(&[0u8, 1, 7]).unwrap(), ty: HandshakeTransport::Tcp,
    }
}
fn any_write_state(elen: usize) -> (WriteState, usize, usize) {
    if kani::any() { (WriteState::Idle, 0, 0) } else {
        let offset: usize = kani::any();
        let encrypted_len: usize = kani::any();
        // write-state invariant
        kani::assume(offset < encrypted_len && encrypted_len <= elen);
        (WriteState::Writing { offset, encrypted_len }, offset, encrypted_len)
    }
}

#[kani::proof]
#[kani::unwind(5)]
#[kani::stub(NoiseContext::write_message, cipher_write)]
fn c02_poll_write_step() {
    let wbuf: usize = 1 + (kani::any::<u8>() % 2) as usize;      // max_write_buffer_size in {1, 2} (config space)
    let elen = wbuf * ELEN_UNIT;
    let (ws, off0, enc0) = any_write_state(elen);
    let was_writing = matches!(ws, WriteState::Writing { .. });
    let mut sock = mk_socket(elen, ws);
    let eb = sock.encrypt_buffer.as_ptr() as usize;
    let data = vec![0u8; 3 * MAX_FRAME_LEN];
    let len: usize = kani::any();
    kani::assume(len <= data.len());
    let dp = data.as_ptr() as usize;
    let waker = futures::task::noop_waker();
    let mut cx = Context::from_waker(&waker);
    let r = Pin::new(&mut sock).poll_write(&mut cx, &data[..len]);

    kani::cover!(matches!(r, Poll::Ready(Ok(n)) if n == MAX_FRAME_LEN));
    kani::cover!(matches!(r, Poll::Ready(Ok(n)) if n == 2 * MAX_FRAME_LEN));
    kani::cover!(matches!(r, Poll::Pending));
    kani::cover!(matches!(r, Poll::Ready(Ok(n)) if n >= 1 && n < len));

    unsafe {
        // Step 1: the carrier is only ever offered the not-yet-written part of the encrypted buffer
        if IO_WRITES.v > 0 {
            assert!(was_writing);
            assert!(IO_LAST_PTR.v == eb + off0 && IO_LAST_LEN.v == enc0 - off0);
        }
        // offset after the drain attempt
        let (off1, enc1, drained) = if !was_writing { (0, 0, true) } else if IO_WRITES.v > 0 && IO_TAKEN.v > 0 {
            if off0 + IO_TAKEN.v == enc0 { (0, 0, true) } else { (off0 + IO_TAKEN.v, enc0, false) }
        } else { (off0, enc0, false) };
        match &r {
            Poll::Ready(Ok(n)) => {
                let n = *n;
                // no byte is accepted without having been handed to the cipher, none twice, in order:
                assert!(if len == 0 { n == 0 } else { n >= 1 && n <= len });
                let mut total = 0usize;
                let mut pos = if drained { 0 } else { enc1 };
                let mut j = 0;
                while j < 4 {
                    if j < CH_N.v {
                        // chunk j is data[total .. total + l], split at multiples of MAX_FRAME_LEN
                        assert!(CH_MSG_PTR.v[j] == dp + total);
                        let l = CH_MSG_LEN.v[j];
                        assert!(l == if len - total >= MAX_FRAME_LEN { MAX_FRAME_LEN } else { len - total });
                        // its ciphertext window starts 2 bytes after the previous frame and lies inside the buffer
                        assert!(CH_OUT_PTR.v[j] == eb + pos + 2);
                        assert!(pos + 2 + CH_RET.v[j] <= elen);
                        // big-endian length prefix directly in front of it
                        assert!(sock.encrypt_buffer[pos] == (CH_RET.v[j] >> 8) as u8);
                        assert!(sock.encrypt_buffer[pos + 1] == (CH_RET.v[j] & 0xff) as u8);
                        assert!(CH_RET.v[j] <= 65535);
                        pos += 2 + CH_RET.v[j];
                        total += l;
                    }
                    j += 1;
                }
                assert!(total == n);
                if n > 0 {
                    // everything encrypted is scheduled for writing: Writing{offset unchanged, encrypted_len = end of last frame}
                    match sock.write_state {
                        WriteState::Writing { offset, encrypted_len } => {
                            assert!(encrypted_len == pos);
                            assert!(offset == if drained { 0 } else { off1 });
                            assert!(offset < encrypted_len && encrypted_len <= elen);
                        }
                        WriteState::Idle => assert!(false),
                    }
                    // maximal packing: it stopped only because the next chunk would not fit (or input exhausted)
                    if n < len {
                        let next = if len - n >= MAX_FRAME_LEN { MAX_FRAME_LEN } else { len - n };
                        assert!(pos + next + 18 > elen);
                    }
                }
            }
            Poll::Pending => {
                // nothing was accepted => nothing was handed to the cipher
                assert!(CH_N.v == 0);
                assert!(len > 0);
            }
            Poll::Ready(Err(_)) => {}
        }
    }
    // write-state invariant re-established in every outcome
    match sock.write_state {
        WriteState::Idle => {}
        WriteState::Writing { offset, encrypted_len } => assert!(offset < encrypted_len && encrypted_len <= elen),
    }
    core::mem::forget(sock);
}

#[kani::proof]
#[kani::unwind(5)]
fn c02_poll_flush_step() {
    let wbuf: usize = 1 + (kani::any::<u8>() % 2) as usize;
    let elen = wbuf * ELEN_UNIT;
    let (ws, off0, enc0) = any_write_state(elen);
    let was_writing = matches!(ws, WriteState::Writing { .. });
    let mut sock = mk_socket(elen, ws);
    let eb = sock.encrypt_buffer.as_ptr() as usize;
    let waker = futures::task::noop_waker();
    let mut cx = Context::from_waker(&waker);
    let r = Pin::new(&mut sock).poll_flush(&mut cx);
    kani::cover!(matches!(r, Poll::Ready(Ok(()))) && was_writing);
    kani::cover!(matches!(r, Poll::Pending) && was_writing);
    unsafe {
        if IO_WRITES.v > 0 { assert!(was_writing && IO_LAST_PTR.v == eb + off0 && IO_LAST_LEN.v == enc0 - off0); }
        match &r {
            Poll::Ready(Ok(())) => {
                // flush complete => everything encrypted was taken by the carrier and the carrier confirmed its flush
                assert!(matches!(sock.write_state, WriteState::Idle));
                assert!(IO_FLUSHED.v);
                if was_writing { assert!(IO_TAKEN.v == enc0 - off0); }
            }
            Poll::Pending => {
                // offset only grows by what the carrier took
                match sock.write_state {
                    WriteState::Writing { offset, encrypted_len } => {
                        assert!(was_writing && encrypted_len == enc0);
                        assert!(offset == off0 || offset == off0 + IO_TAKEN.v);
                        assert!(offset < encrypted_len);
                    }
                    WriteState::Idle => assert!(!was_writing || off0 + IO_TAKEN.v == enc0),
                }
            }
            Poll::Ready(Err(_)) => {}
        }
    }
    core::mem::forget(sock);
}

/// NoiseSocket::new: buffer sizes for every configuration (the write-path proof assumes the encrypt buffer holds
/// max_write_buffer_size whole frames, each with prefix and tag)
#[kani::proof]
#[kani::unwind(3)]
fn c02_new_buffer_sizes() {
    let ra: usize = 1 + (kani::any::<u8>() % 5) as usize;
    let wb: usize = 1 + (kani::any::<u8>() % 2) as usize;
    let noise: NoiseContext = unsafe { core::mem::MaybeUninit::uninit().assume_init() };
    let s = NoiseSocket::new(VerifIo { polls_left: 0 }, noise, ra, wb, PeerId::from_bytes(&[0u8, 1, 7]).unwrap(), HandshakeTransport::Tcp);
    assert!(s.encrypt_buffer.len() >= wb * (SPEC_MAX_MSG + 2));
    assert!(s.encrypt_buffer.len() >= MAX_FRAME_LEN + 18);           // at least one maximal frame always fits
    assert!(s.read_buffer.len() >= ra * SPEC_MAX_MSG + 2 + SPEC_MAX_MSG);
    assert!(matches!(s.write_state, WriteState::Idle));
    assert!(MAX_FRAME_LEN <= SPEC_MAX_PLAINTEXT);
    core::mem::forget(s);
}

#[kani::proof]
fn c02_noise_socket_canary() {
    let x: u8 = kani::any();
    assert!(x != 7);
}
