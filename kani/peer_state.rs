//@ module src/transport/manager/peer_state.rs
//@ harness c05_established_s0 kind=proof tier=quick timeout=900 covers=1
//@ harness c05_established_s1 kind=proof tier=quick timeout=900 covers=1
//@ harness c05_established_s2 kind=proof tier=quick timeout=900 covers=2
//@ harness c05_established_s3 kind=proof tier=quick timeout=900 covers=1
//@ harness c05_established_s4 kind=proof tier=quick timeout=900 covers=2
//@ harness c05_established_s5 kind=proof tier=quick timeout=900 covers=1
//@ harness c05_established_s6 kind=proof tier=quick timeout=900 covers=1
//@ harness c05_closed_s0 kind=proof tier=quick timeout=900 covers=2
//@ harness c05_closed_s1 kind=proof tier=quick timeout=900 covers=3
//@ harness c05_closed_s2 kind=proof tier=quick timeout=900 covers=1
//@ harness c05_closed_s3 kind=proof tier=quick timeout=900
//@ harness c05_closed_s4 kind=proof tier=quick timeout=900 covers=1
//@ harness c05_closed_s5 kind=proof tier=quick timeout=900
//@ harness c05_closed_s6 kind=proof tier=quick timeout=900
//@ harness c05_canary kind=canary tier=quick timeout=120
//
// C05 / C06 — the two PeerState transitions Verus rejects (match guard + `&mut` binding).
// The clauses marked [X] are the cross-tool contract: they are *assumed* by the Verus unit `peer_state`
// (external_body on_connection_established / on_connection_closed) and *proved* here on the real code.
use super::*;

fn stub_rs_new() -> std::hash::RandomState {
    // ASSUMED-SOUND: map/set semantics do not depend on the hash seed; getrandom is a syscall Kani cannot model.
    unsafe { core::mem::transmute::<[u64; 2], std::hash::RandomState>([0, 0]) }
}

fn addr(n: u16) -> Multiaddr {
    Multiaddr::empty().with(Protocol::Tcp(n))
}
/// records carry pairwise different (concrete) addresses so that an address mix-up is visible
fn rec(n: u16) -> ConnectionRecord {
    recw(n, kani::any::<usize>())
}
fn recw(n: u16, id: usize) -> ConnectionRecord {
    ConnectionRecord { address: addr(n), connection_id: ConnectionId::from(id) }
}

/// state of the given shape over two symbolic ids.  Built twice (old / working copy) instead of cloned:
/// cloning or comparing even an EMPTY std HashSet drags hashbrown's group probing into CBMC (timeout).
fn mk_state(shape: u8, i1: usize, i2: usize) -> PeerState {
    match shape {
        0 => PeerState::Connected { record: recw(1, i1), secondary: None },
        1 => PeerState::Connected { record: recw(1, i1), secondary: Some(SecondaryOrDialing::Secondary(recw(2, i2))) },
        2 => PeerState::Connected { record: recw(1, i1), secondary: Some(SecondaryOrDialing::Dialing(recw(2, i2))) },
        3 => PeerState::Opening {
            addresses: HashSet::new(),
            connection_id: ConnectionId::from(i2),
            transports: HashSet::new(),
        },
        4 => PeerState::Dialing { dial_record: recw(2, i2) },
        5 => PeerState::Disconnected { dial_record: None },
        _ => PeerState::Disconnected { dial_record: Some(recw(2, i2)) },
    }
}
/// equality that does not walk hash tables: Opening states are compared by id and emptiness of their (empty) sets
fn same_state(a: &PeerState, b: &PeerState) -> bool {
    match (a, b) {
        (PeerState::Opening { addresses: a1, connection_id: c1, transports: t1 },
         PeerState::Opening { addresses: a2, connection_id: c2, transports: t2 }) =>
            c1 == c2 && a1.len() == a2.len() && t1.len() == t2.len(),
        (PeerState::Opening { .. }, _) | (_, PeerState::Opening { .. }) => false,
        _ => a == b,
    }
}

// ---- executable rendering of the abstract view used by the Verus unit ------------------------------
fn dial_id(s: &PeerState) -> Option<ConnectionId> {
    match s {
        PeerState::Dialing { dial_record } => Some(dial_record.connection_id),
        PeerState::Opening { connection_id, .. } => Some(*connection_id),
        PeerState::Disconnected { dial_record: Some(r) } => Some(r.connection_id),
        PeerState::Connected { secondary: Some(SecondaryOrDialing::Dialing(r)), .. } => Some(r.connection_id),
        _ => None,
    }
}
/// established ids as a (multi)list of at most two
fn est(s: &PeerState) -> (Option<ConnectionId>, Option<ConnectionId>) {
    match s {
        PeerState::Connected { record, secondary: Some(SecondaryOrDialing::Secondary(r2)) } =>
            (Some(record.connection_id), Some(r2.connection_id)),
        PeerState::Connected { record, .. } => (Some(record.connection_id), None),
        _ => (None, None),
    }
}
fn est_contains(e: (Option<ConnectionId>, Option<ConnectionId>), id: ConnectionId) -> bool {
    e.0 == Some(id) || e.1 == Some(id)
}
fn est_len(e: (Option<ConnectionId>, Option<ConnectionId>)) -> usize {
    match e { (None, None) => 0, (Some(a), Some(b)) if a != b => 2, _ => 1 }
}
/// all records held by a state (established + dial)
fn holds_record(s: &PeerState, r: &ConnectionRecord) -> bool {
    match s {
        PeerState::Connected { record, secondary } => record == r || match secondary {
            Some(SecondaryOrDialing::Secondary(x)) | Some(SecondaryOrDialing::Dialing(x)) => x == r,
            None => false,
        },
        PeerState::Dialing { dial_record } => dial_record == r,
        PeerState::Disconnected { dial_record: Some(d) } => d == r,
        _ => false,
    }
}
/// representation invariant (ids come from one fetch_add allocator): the ids held by one state are distinct
fn wf(s: &PeerState) -> bool {
    match s {
        PeerState::Connected { record, secondary: Some(SecondaryOrDialing::Secondary(x)) } => record.connection_id != x.connection_id,
        PeerState::Connected { record, secondary: Some(SecondaryOrDialing::Dialing(x)) } => record.connection_id != x.connection_id,
        _ => true,
    }
}

/// every record of `new` is a record of `old` or `extra`, unchanged (no fabricated record, no address mix-up)
fn records_preserved(old: &PeerState, new: &PeerState, extra: Option<&ConnectionRecord>) -> bool {
    let chk = |r: &ConnectionRecord| holds_record(old, r) || extra.map_or(false, |e| e == r);
    match new {
        PeerState::Connected { record, secondary } => chk(record) && match secondary {
            Some(SecondaryOrDialing::Secondary(x)) | Some(SecondaryOrDialing::Dialing(x)) => chk(x),
            None => true,
        },
        PeerState::Dialing { dial_record } => chk(dial_record),
        PeerState::Disconnected { dial_record: Some(d) } => chk(d),
        _ => true,
    }
}

fn established_contract(shape: u8) {
    let (i1, i2): (usize, usize) = (kani::any(), kani::any());
    let old = mk_state(shape, i1, i2);
    kani::assume(wf(&old));
    let c = rec(3);
    // freshness (unverified caller): the id of a newly established connection is the outstanding dial's id or unused
    kani::assume(!est_contains(est(&old), c.connection_id));
    let mut s = mk_state(shape, i1, i2);
    let r = s.on_connection_established(c.clone());

    if shape == 0 { kani::cover!(r, "secondary slot free"); }
    if shape == 1 { kani::cover!(!r, "third connection rejected"); }
    if shape == 2 { kani::cover!(r, "dialed connection becomes secondary"); }
    if shape == 2 { kani::cover!(!r, "foreign inbound while secondary dial outstanding"); }
    if shape == 3 { kani::cover!(r, "inbound while opening"); }
    if shape == 4 { kani::cover!(dial_id(&old) == Some(c.connection_id), "own dial succeeded"); }
    if shape == 4 { kani::cover!(dial_id(&old) != Some(c.connection_id), "inbound while dialing"); }
    if shape == 5 { kani::cover!(r, "inbound while idle"); }
    if shape == 6 { kani::cover!(r, "after close with dial outstanding"); }

    // [X] never more than two established
    assert!(est_len(est(&s)) <= 2);
    // [X] accepted => established set grows by exactly this id
    if r {
        let (a, b) = est(&old);
        let e = est(&s);
        assert!(est_contains(e, c.connection_id));
        if let Some(x) = a { assert!(est_contains(e, x)); }
        if let Some(x) = b { assert!(est_contains(e, x)); }
        assert!(est_len(e) == est_len((a, b)) + 1);
    } else {
        // [X] rejected => nothing is disturbed
        assert!(same_state(&s, &old));
    }
    let is_opening = matches!(old, PeerState::Opening { .. });
    // [X] the dial is consumed by its own success
    if dial_id(&old) == Some(c.connection_id) && !is_opening {
        assert!(r);
        assert!(dial_id(&s).is_none());
    }
    // [X] a foreign inbound connection keeps the outstanding dial
    if r && !is_opening && dial_id(&old) != Some(c.connection_id) {
        assert!(dial_id(&s) == dial_id(&old));
    }
    // [X] Opening: the inbound connection wins, the record is exactly the new connection
    if is_opening {
        assert!(r);
        assert!(s == PeerState::Connected { record: c.clone(), secondary: None });
    }
    // a free peer or a free secondary slot is never refused (surplus is the ONLY reason to reject)
    if est_len(est(&old)) == 0 { assert!(r); }
    if shape == 0 { assert!(r); }
    // frame: representation invariant and record integrity
    assert!(wf(&s));
    assert!(records_preserved(&old, &s, Some(&c)));
    // the established record with the new id is exactly the reported connection (address included)
    if r { assert!(holds_record(&s, &c)); }
    core::mem::forget(old);
    core::mem::forget(s);
}

fn closed_contract(shape: u8) {
    let (i1, i2): (usize, usize) = (kani::any(), kani::any());
    let old = mk_state(shape, i1, i2);
    kani::assume(wf(&old));
    let id = ConnectionId::from(kani::any::<usize>());
    let mut s = mk_state(shape, i1, i2);
    let r = s.on_connection_closed(id);

    let (a, b) = est(&old);
    if shape == 0 { kani::cover!(r, "last connection closed"); }
    if shape == 1 { kani::cover!(a == Some(id), "primary closed, secondary promoted"); }
    if shape == 1 { kani::cover!(b == Some(id), "secondary closed"); }
    if shape == 2 { kani::cover!(r, "primary closed, dial preserved"); }
    if shape == 0 { kani::cover!(!r, "unknown id"); }
    if shape == 4 { kani::cover!(true, "not connected"); }
    if shape == 1 { kani::cover!(!est_contains((a, b), id), "unknown id with two connections"); }

    let e = est(&s);
    // [X] est(new) = est(old) \ {id}
    assert!(!est_contains(e, id));
    if let Some(x) = a { if x != id { assert!(est_contains(e, x)); } }
    if let Some(x) = b { if x != id { assert!(est_contains(e, x)); } }
    let removed = if est_contains((a, b), id) { 1 } else { 0 };
    assert!(est_len(e) + removed == est_len((a, b)));
    // [X] the dial record is never touched by a close
    assert!(dial_id(&s) == dial_id(&old));
    // [X] "closed" is signalled exactly when the LAST connection is gone
    let was_connected = matches!(old, PeerState::Connected { .. });
    assert!(r == (was_connected && est_contains((a, b), id) && est_len(e) == 0));
    // [X] not connected => untouched
    if !was_connected { assert!(same_state(&s, &old)); }
    // unknown id => untouched (surplus/unknown closures do not disturb existing connections)
    if !est_contains((a, b), id) { assert!(same_state(&s, &old)); }
    assert!(wf(&s));
    assert!(records_preserved(&old, &s, None));
    // after the last close the peer is dialable again unless a dial is still outstanding
    if r && dial_id(&old).is_none() { assert!(s.can_dial() == StateDialResult::Ok); }
    core::mem::forget(old);
    core::mem::forget(s);
}

macro_rules! per_shape {
    ($($e:ident, $c:ident, $n:expr;)*) => {$(
        #[kani::proof]
        #[kani::unwind(6)]
        #[kani::stub(std::hash::RandomState::new, stub_rs_new)]
        fn $e() { established_contract($n) }
        #[kani::proof]
        #[kani::unwind(6)]
        #[kani::stub(std::hash::RandomState::new, stub_rs_new)]
        fn $c() { closed_contract($n) }
    )*};
}
// one harness per entry shape (a single harness over all shapes does not finish in 15 min)
per_shape! {
    c05_established_s0, c05_closed_s0, 0;
    c05_established_s1, c05_closed_s1, 1;
    c05_established_s2, c05_closed_s2, 2;
    c05_established_s3, c05_closed_s3, 3;
    c05_established_s4, c05_closed_s4, 4;
    c05_established_s5, c05_closed_s5, 5;
    c05_established_s6, c05_closed_s6, 6;
}

#[kani::proof]
fn c05_canary() {
    let x: u8 = kani::any();
    assert!(x != 7);
}
