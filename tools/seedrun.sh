#!/bin/bash
# usage: tools/seedrun.sh <diff> <ID> [tier]   — run a check against a scratch copy of /repo with a change applied
diff=$(realpath "$1"); id=$2; tier=${3:-quick}
S=/tmp/mrepo-$$
rsync -a --delete --exclude /target --exclude /.git /repo/ $S/ || exit 3
( cd $S && patch -p1 -s < "$diff" ) || { echo "patch failed"; rm -rf $S; exit 3; }
cd /verif
VERIF_REPO=$S ./vc check $id --tier $tier; rc=$?
rm -rf $S
exit $rc
