#!/bin/bash
# usage: tools/seedrun.sh <diff> <ID> [tier]   — run a check against a scratch copy of /repo with a change applied
set -e
diff=$1; id=$2; tier=${3:-quick}
S=/tmp/mrepo-$$
rsync -a --delete --exclude /target --exclude /.git /repo/ $S/
( cd $S && git init -q 2>/dev/null; git apply --unsafe-paths -p1 --directory=. "$diff" 2>/dev/null || patch -p1 -s < "$diff" )
cd /verif
VERIF_REPO=$S ./vc check $id --tier $tier; rc=$?
rm -rf $S
exit $rc
