#!/usr/bin/env python3
"""Regenerate MANIFEST.json from props/*.json (claimed) and tools/not_applicable.json."""
import glob, json, os
V = os.path.dirname(os.path.dirname(os.path.abspath(__file__)))
props = [json.load(open(p)) for p in sorted(glob.glob(V + "/props/*.json"))]
na = json.load(open(V + "/tools/not_applicable.json"))
claimed = {p["id"] for p in props if p.get("claimed", True)}
checks = []
for p in props:
    if not p.get("claimed", True):
        continue
    checks.append({
        "property_id": p["id"],
        "quick_cmd": f"./vc check {p['id']} --tier quick",
        "thorough_cmd": f"./vc check {p['id']} --tier thorough",
        "evidence_file": f"/verif/evidence/{p['id']}.json",
        "replay_cmd_template": "./vc replay {path}",
        "engine": "vc",
        "level_claimed": {"category": p.get("level", "proof"), "text": p["level_text"], "design_ref": p.get("design_ref", "")},
        "level_note": p["level_note"],
        "technique": p["technique"],
    })
m = {
    "version": 1,
    "setup_cmd": "./vc setup",
    "hooks": {
        "guard": "cfg(kani) — applied to a scratch copy of /repo only; /repo carries no hook commits",
        "enable": "vc rsyncs /repo's working tree to /var/tmp/litep2p-vc-<id>, appends `#[cfg(kani)] mod verif_<unit>;` child modules and `#[cfg_attr(kani, kani::requires/ensures)]` lines (add-only), and builds that copy with cargo kani (--cfg kani); Verus units are extracted from /repo's text on every run",
        "baseline_off_cmd": "cd /repo && cargo nextest run --workspace --no-fail-fast --offline --test-threads 8",
        "source_commits": [],
        "add_only": True,
    },
    "engines": [
        {"name": "vc", "path": "/verif/vc", "serves_properties": sorted(claimed),
         "kind_free_text": "contract-based deductive verification: Verus on mechanically extracted real functions + Kani function contracts / proof harnesses on an annotated scratch copy of the real crate"},
    ],
    "checks": checks,
    "notes": "exit 2 from a check means undecided (lost anchor / unsupported construct / solver limit), never a violation. See DESIGN.md.",
    "not_applicable": [{"property_id": k, "reason": v} for k, v in sorted(na.items()) if k not in claimed],
}
json.dump(m, open(V + "/MANIFEST.json", "w"), indent=1)
print("claimed:", sorted(claimed), "n/a:", [x["property_id"] for x in m["not_applicable"]])
