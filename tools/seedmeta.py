#!/usr/bin/env python3
"""write seeded/<id>/meta.json from the agents' notes + my confirmation and detection runs"""
import json, os
V = os.path.dirname(os.path.dirname(os.path.abspath(__file__)))
# seed -> (detected?, by which obligation / why not)
R = {
 "C01-1": (True, "noise_auth::c01_parse_and_verify_contract (Kani): Ok(p) => signature present and verified"),
 "C01-2": (False, "change is in TcpConnection::negotiate_connection (async fn over TcpStream): the dialed-peer comparison is listed under not_decided for C01"),
 "C02-1": (True, "noise_socket::c02_poll_write_step (Kani): chunk j must be data[total..] (in order, contiguous) and encrypted_len must equal the end of the last frame"),
 "C02-2": (True, "noise_read::NoiseSocket::reset_read_state (Verus): carried byte must be old read_buffer[nread-1] — caught after the read path was brought under contract; missed before (read path was unverified)"),
 "C03-1": (True, "msdialer::WebRtcDialerState::propose (Verus): the names still to be proposed, most preferred first, equal the given fallback list — caught after the message-based dialer was brought under contract in Verus (Bytes opaque); missed before (Kani ordering harness timed out)"),
 "C03-2": (True, "length_delimited::c03_ld_write_buffer_step (Kani): Ready(Ok) => write buffer empty"),
 "C04-1": (True, "substream::c04_poll_next_identity_step (Kani): after a delivered frame the read buffer still holds >= n bytes"),
 "C04-2": (True, "substream::c04_sink_start_send (Kani): refused exactly when len > max"),
 "C05-1": (False, "TransportManager::on_connection_opened (pending_connections bookkeeping, HashMap behind RwLock + trait objects): manager level is not_decided for C05"),
 "C05-2": (False, "TransportManager::dial_address (state advanced before validation): manager level is not_decided for C05"),
 "C06-1": (False, "TransportManager::on_connection_established (accept_established_connection moved out of the accepted branch): unverified caller of the verified ConnectionLimits; listed under not_decided for C06"),
 "C06-2": (True, "limits::ConnectionLimits::accept_established_connection (Verus): is_listener && max_incoming is None => both sets unchanged"),
 "C14-1": (True, "kbucket::RoutingTable::on_connection_established (Verus): a stored peer is Connected afterwards for either endpoint direction — caught after that function was brought under contract; missed before"),
 "C14-2": (True, "closest_iter::ClosestBucketsIter::new (Verus): initial state is Start(..)"),
 "C16-1": (True, "kad_dispatch::Kademlia::open_substream_or_dial (Verus): an accepted action is parked BEHIND everything already parked for the peer's pending dial — *missed at first* (I had taken the function for part of the async loop; it is synchronous) → brought under contract once vstd's Entry specifications were found"),
 "C16-2": (True, "target_peers::c16_new_quorum_empty_targets (Kani, natively replayed): required acknowledgements >= 1 for an empty target set — caught after the harness for `new` was added; missed before"),
 "C18-1": (True, "peer_id::PeerId::from_public_key_protobuf (Verus): len <= 42 => identity multihash — caught after the Verus unit was added; missed before"),
 "C18-2": (True, "peer_id::c18_from_multihash_agrees_with_reference and c18_from_multihash_contract (Kani, natively replayed)"),
 "C19-1": (True, "msproto::Message::decode (Verus): `tail[len - 1]` underflow is an undischarged obligation — caught after Message::decode was brought under contract in Verus (Bytes opaque); missed before"),
 "C19-2": (True, "substream::c04_read_payload_size (Kani): NotEnoughBytes => len < 10"),
 "C20-1": (True, "bitswap_block::block_to_response (Verus): the cid's multihash is wrap(code(H), digest(H)) of the hash of exactly the data — the announced length must not matter"),
 "C08-1": (True, "transport_service::TransportService::on_connection_closed (Verus): a connection id that is neither primary nor secondary disturbs nothing (the seed re-introduces defect F6)"),
 "C08-2": (False, "ProtocolSet::report_connection_closed (order of notifying protocols vs manager) is an async fn over channels: the cross-component ordering is not_decided for C08"),
 "C13-1": (False, "RequestResponseProtocol::on_connection_established is an async fn (Verus has no async; Kani cannot compile the tokio types): everything after acceptance is not_decided for C13"),
 "C13-2": (False, "RequestResponseProtocol::on_inbound_substream (inbound concurrency bound) is an async fn: not_decided for C13"),
 "C02-3": (True, "noise_read::NoiseSocket::reset_read_state (Verus): frame clause `current_frame_size` unchanged (a remembered frame length must survive the buffer reset) — second, focused seeding round on functions under contract"),
 "C02-4": (True, "noise_read_benign::NoiseSocket::poll_read (Verus): under a benign environment (carrier and cipher never fail, every length prefix valid) poll_read never returns an error — *missed at first* (the read contract allowed an error at any time) → the same text is now verified a second time under the benign-environment contract"),
 "C03-3": (True, "msdialer::WebRtcDialerState::propose and ::propose_next_fallback (Verus): the names still to be proposed, most preferred first, are exactly the rest of the given list"),
 "C03-4": (True, "mslistener::webrtc_listener_negotiate (Verus): the confirmation echoes the proposed name with the header iff the header arrived in this payload"),
 "C20-3": (True, "bitswap_batch::extract_next_batch (Verus): every block of the returned batch is <= max_batch_size, for every queue (the seed returns a lone oversized block)"),
 "C20-4": (True, "bitswap_block::block_to_response (Verus): the cid's multihash is the FULL digest of exactly the data, whatever length the prefix announces"),
 "C17-1": (True, "kad_store::MemoryStore::put (Verus): every record held afterwards is an old one or the offered one WITH a value below max_record_size_bytes — also when it overwrites an existing key"),
 "C17-2": (True, "kad_store::MemoryStore::remove_local_provider (Verus): what stays under the key is the old list without one entry, in the same order, still sorted — *missed at first* (function not under contract) → brought under contract"),
 "C04-3": (True, "substream_sink::Substream::poll_flush (Verus): Ready(Ok) => nothing parked and nothing queued (first run: undecided, the seed calls VecDeque::is_empty which vstd does not specify → assumed contract added); also the bounded Kani harness c04_sink_flush_complete_means_drained"),
 "C04-4": (True, "substream_sink::Substream::start_send (Verus): refused exactly when the item length differs from the fixed frame size"),
 "C01-3": (True, "noise_auth::parse_and_verify_peer_id (Verus iff-contract: Ok only if a signature is present and verifies) and the bounded Kani cross-check c01_parse_and_verify_contract"),
 "C01-4": (True, "crypto::c01_remote_key_dispatch (Kani, natively replayed): only an Ed25519 key of exactly 32 data bytes is accepted"),
 "C05-3": (True, "peer_state::c05_established_s4 / _s6 (Kani per-shape harnesses of PeerState::on_connection_established): an established connection whose id equals the dial record's id consumes the dial record, whatever its address"),
 "C05-4": (True, "peer_state::PeerState::on_dial_failure (Verus): when the secondary dial of a connected peer fails, the state is Connected with the SAME primary record and no secondary"),
 "C06-3": (True, "limits::ConnectionLimits::accept_established_connection (Verus): an accepted outbound connection is counted iff an outbound limit is configured"),
 "C06-4": (True, "limits::ConnectionLimits::can_accept_connection (Verus): refused iff the counted set has reached the configured maximum — including a maximum of 0"),
 "C08-3": (True, "transport_service::TransportService::on_connection_closed (Verus): primary closed while a secondary exists => the secondary is promoted and no event is emitted — first run undecided (the seed calls ConnectionHandle::is_active, missing from the opaque prelude type → added as a nondeterministic method)"),
 "C08-4": (True, "transport_service::TransportService::on_connection_established (Verus): a second connection is stored as secondary and the primary is kept — first run undecided for the same reason as C08-3"),
 "C13-3": (True, "reqresp::RequestResponseProtocol::on_send_request (Verus): a refused request leaves all three registries unchanged (the seed parks the request before the dial and leaves it there on failure)"),
 "C13-4": (True, "reqresp::RequestResponseProtocol::on_send_request (Verus): Ok => the request is registered (pending_outbound / peer context / timeout) — first run undecided (the seed names SubstreamError::ConnectionClosed, missing from the reduced error type → variant added)"),
 "C14-3": (True, "kbucket::RoutingTable::on_connection_established (Verus): a stored peer is Connected afterwards for either endpoint direction"),
 "C14-4": (True, "kbucket::c14_bucket_entry_full_3sym (Kani, bounded: full bucket, 3 symbolic entries; natively replayed): a stored peer is reported Occupied, never handed out as a replaceable slot. The Verus obligation KBucket::entry is UNDECIDED for this seed (the two loops its invariants are anchored to were merged — a lost anchor is never an alarm), which is why the bounded harness was moved from the thorough to the quick tier"),
 "C16-3": (True, "kad_dispatch::Kademlia::open_substream_or_dial (Verus): parked BEHIND everything already parked"),
 "C16-4": (True, "target_peers::c16_new_quorum_empty_targets (Kani): required acknowledgements >= 1 for an empty target set, every quorum"),
 "C18-3": (True, "peer_id::c18_from_multihash_agrees_with_reference and c18_from_multihash_contract (Kani, natively replayed)"),
 "C18-4": (True, "peer_id::PeerId::from_bytes (Verus): parsed only from the COMPLETE encoding — caught after from_bytes was brought under contract with both dependency entry points declared; before that: not decided"),
 "C03-5": (True, "msdialer_stream::DialerSelectFuture::poll (Verus): Pending keeps the state invariant — an answer is awaited only after everything submitted has been flushed"),
 "C03-6": (True, "msdialer_stream::DialerSelectFuture::poll (Verus): the lazy shortcut is taken only on the dialer's LAST candidate — *missed at first* (the clause said only 'V1Lazy'), strengthened with 'nothing is left that could still be proposed'"),
 "C20-2": (False, "config constant MAX_BATCH_SIZE: the relation between batch size and the protobuf-encoded message size (send_response, async) is not_decided for C20"),
}
for k, (det, why) in R.items():
    d = os.path.join(V, "seeded", k)
    am = json.load(open(os.path.join(d, "agent_meta.json")))
    meta = {
        "property": k.split("-")[0],
        "breaks": am.get("summary"),
        "needs_to_manifest": am.get("needs_to_manifest"),
        "files": am.get("files"),
        "origin": "independent sub-agent given only the property text and a scratch worktree (no access to /verif)",
        "confirmed_by_me": {
            "how": "in the agent's scratch worktree: git apply demo.diff -> cargo test --lib verif_seed_demo_N (passes); git apply patch.diff -> same test (fails); patch alone -> cargo nextest run --workspace (420 passed, 3 skipped)",
            "demo_without_patch": "pass", "demo_with_patch": "FAIL", "suite_with_patch": "420 passed",
        },
        "detection": {
            "command": f"tools/seedrun.sh seeded/{k}/patch.diff {k.split('-')[0]}   (rsync of /repo + patch, VERIF_REPO=<copy> ./vc check {k.split('-')[0]} --tier quick)",
            "detected": det, "by_or_why_not": why,
        },
    }
    json.dump(meta, open(os.path.join(d, "meta.json"), "w"), indent=1)
    os.remove(os.path.join(d, "agent_meta.json")) if False else None
print(sum(1 for v in R.values() if v[0]), "of", len(R), "detected")
