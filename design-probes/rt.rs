use super::*;

/// true iff no bit in [lo, hi) of `d` is set (hi <= 256)
pub(super) fn none_set_between(d: &Distance, lo: usize, hi: usize) -> bool {
    let k: usize = kani::any();
    // universally quantified via a fresh symbolic witness
    !(lo <= k && k < hi && k < 256 && d.0.bit(k))
}

impl kani::Arbitrary for BucketIndex {
    fn any() -> Self { let i: usize = kani::any(); kani::assume(i < 256); BucketIndex(i) }
}

fn small_distance() -> Distance {
    let low: u16 = kani::any();
    Distance(U256([low as u64, 0, 0, 0]))
}

#[kani::proof_for_contract(ClosestBucketsIter::next_in)]
#[kani::unwind(18)]
fn probe_contract_next_in_16() {
    let it = ClosestBucketsIter { distance: small_distance(), state: ClosestBucketsIterState::Done };
    let i: usize = kani::any();
    kani::assume(i <= 16);
    let _ = it.next_in(BucketIndex(i));
}

#[kani::proof]
#[kani::stub_verified(ClosestBucketsIter::next_in)]
#[kani::unwind(2)]
fn probe_next_uses_contract() {
    let limbs: [u64; 4] = kani::any();
    let i: usize = kani::any();
    kani::assume(i < 256);
    let mut it = ClosestBucketsIter { distance: Distance(U256(limbs)), state: ClosestBucketsIterState::ZoomIn(BucketIndex(i)) };
    let r = it.next();
    match r {
        Some(b) => assert!(b.get() < i || b.get() == 0),
        None => assert!(false),
    }
}
