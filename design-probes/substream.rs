use super::*;

/// Nondeterministic carrier: every poll may be Pending, an error, or transfer 1..=len bytes.
pub(super) struct VerifIo { pub polls_left: u8 }
impl AsyncRead for VerifIo {
    fn poll_read(mut self: Pin<&mut Self>, _cx: &mut Context<'_>, buf: &mut ReadBuf<'_>) -> Poll<std::io::Result<()>> {
        if self.polls_left == 0 { return Poll::Pending; }
        self.polls_left -= 1;
        match kani::any::<u8>() % 3 {
            0 => Poll::Pending,
            1 => Poll::Ready(Err(ErrorKind::BrokenPipe.into())),
            _ => {
                let n: usize = kani::any();
                kani::assume(n <= buf.remaining());
                buf.advance(n); // buffers are pre-zeroed by the caller (BytesMut::zeroed), contents irrelevant here
                Poll::Ready(Ok(()))
            }
        }
    }
}
impl AsyncWrite for VerifIo {
    fn poll_write(self: Pin<&mut Self>, _cx: &mut Context<'_>, buf: &[u8]) -> Poll<Result<usize, std::io::Error>> {
        match kani::any::<u8>() % 3 { 0 => Poll::Pending, 1 => Poll::Ready(Err(ErrorKind::BrokenPipe.into())), _ => { let n: usize = kani::any(); kani::assume(n <= buf.len()); Poll::Ready(Ok(n)) } }
    }
    fn poll_flush(self: Pin<&mut Self>, _cx: &mut Context<'_>) -> Poll<Result<(), std::io::Error>> { if kani::any() { Poll::Pending } else { Poll::Ready(Ok(())) } }
    fn poll_shutdown(self: Pin<&mut Self>, _cx: &mut Context<'_>) -> Poll<Result<(), std::io::Error>> { Poll::Ready(Ok(())) }
}

fn any_peer() -> PeerId { PeerId::from_bytes(&[0u8, 1, 7]).unwrap() }

fn stub_tcp_poll_read(_s: Pin<&mut crate::transport::tcp::Substream>, _cx: &mut Context<'_>, _buf: &mut ReadBuf<'_>) -> Poll<std::io::Result<()>> { Poll::Pending }
fn stub_catch_unwind<F: FnOnce() -> R + std::panic::UnwindSafe, R>(f: F) -> std::thread::Result<R> { Ok(f()) }

#[kani::proof]
#[kani::unwind(3)]
#[kani::stub(<crate::transport::tcp::Substream as tokio::io::AsyncRead>::poll_read, stub_tcp_poll_read)]
fn probe_identity_poll_next_no_panic() {
    let payload_size: usize = kani::any();
    kani::assume(payload_size <= 4096);
    let mut s = Substream::new(any_peer(), SubstreamId::from(0usize), SubstreamType::Verif(VerifIo { polls_left: 1 }), ProtocolCodec::Identity(payload_size));
    let waker = futures::task::noop_waker();
    let mut cx = Context::from_waker(&waker);
    let r = Pin::new(&mut s).poll_next(&mut cx);
    core::mem::forget(r);
    core::mem::forget(s);
}

#[kani::proof]
#[kani::unwind(3)]
fn probe_t1() { let _ = any_peer(); }
#[kani::proof]
#[kani::unwind(3)]
fn probe_t2() { let b = BytesMut::zeroed(1024); assert!(b.len() == 1024); }
#[kani::proof]
#[kani::unwind(3)]
fn probe_t3() { let waker = futures::task::noop_waker(); let _cx = Context::from_waker(&waker); }
#[kani::proof]
#[kani::unwind(3)]
fn probe_t4() {
    let payload_size: usize = kani::any();
    kani::assume(payload_size <= 4096);
    let _s = Substream::new(any_peer(), SubstreamId::from(0usize), SubstreamType::Verif(VerifIo { polls_left: 1 }), ProtocolCodec::Identity(payload_size));
    core::mem::forget(_s);
}

type TcpSub = crate::transport::tcp::Substream;
fn nd_poll_read(_s: Pin<&mut TcpSub>, _cx: &mut Context<'_>, buf: &mut ReadBuf<'_>) -> Poll<std::io::Result<()>> {
    match kani::any::<u8>() % 3 {
        0 => Poll::Pending,
        1 => Poll::Ready(Err(ErrorKind::BrokenPipe.into())),
        _ => { let n: usize = kani::any(); kani::assume(n <= buf.remaining()); buf.advance(n); Poll::Ready(Ok(())) }
    }
}
fn nd_poll_write(_s: Pin<&mut TcpSub>, _cx: &mut Context<'_>, buf: &[u8]) -> Poll<Result<usize, std::io::Error>> {
    match kani::any::<u8>() % 3 { 0 => Poll::Pending, 1 => Poll::Ready(Err(ErrorKind::BrokenPipe.into())), _ => { let n: usize = kani::any(); kani::assume(n <= buf.len()); Poll::Ready(Ok(n)) } }
}
fn nd_poll_flush(_s: Pin<&mut TcpSub>, _cx: &mut Context<'_>) -> Poll<Result<(), std::io::Error>> { if kani::any() { Poll::Pending } else { Poll::Ready(Ok(())) } }

#[kani::proof]
#[kani::unwind(4)]
#[kani::stub(<crate::transport::tcp::Substream as tokio::io::AsyncRead>::poll_read, nd_poll_read)]
#[kani::stub(<crate::transport::tcp::Substream as tokio::io::AsyncWrite>::poll_write, nd_poll_write)]
#[kani::stub(<crate::transport::tcp::Substream as tokio::io::AsyncWrite>::poll_flush, nd_poll_flush)]
#[kani::stub(<crate::transport::tcp::Substream as tokio::io::AsyncWrite>::poll_shutdown, nd_poll_flush)]
fn probe_sink_flush_reports_complete_only_when_drained() {
    let carrier: TcpSub = unsafe { core::mem::MaybeUninit::uninit().assume_init() };
    let mut s = Substream::new(any_peer(), SubstreamId::from(0usize), SubstreamType::Tcp(carrier), ProtocolCodec::UnsignedVarint(None));
    let waker = futures::task::noop_waker();
    let mut cx = Context::from_waker(&waker);
    let len: usize = kani::any();
    kani::assume(len >= 1 && len <= 64);
    let item = Bytes::from(vec![0u8; len]);
    let r = Pin::new(&mut s).start_send(item);
    if r.is_ok() {
        if let Poll::Ready(Ok(())) = Sink::poll_flush(Pin::new(&mut s), &mut cx) {
            assert!(s.pending_out_frame.is_none() && s.pending_out_frames.is_empty());
        }
    }
    core::mem::forget(s);
}
