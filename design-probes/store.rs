use super::*;
use crate::protocol::libp2p::kademlia::types::{Distance, U256};

fn stub_rs_new() -> std::hash::RandomState { unsafe { core::mem::transmute::<[u64; 2], std::hash::RandomState>([0, 0]) } }
fn stub_write(_h: &mut std::hash::DefaultHasher, _b: &[u8]) {}
fn stub_finish(_h: &std::hash::DefaultHasher) -> u64 { 0 }
fn stub_now() -> std::time::Instant { unsafe { core::mem::transmute::<[u8; 16], std::time::Instant>([0u8; 16]) } }

static mut DIST: [u64; 4] = [0; 4];
fn stub_distance(this: &ProviderRecord) -> Distance {
    let idx = this.provider.to_bytes()[2] as usize; // identity multihash: [code, len, digest[0], ..]
    Distance(U256([unsafe { DIST[idx % 4] }, 0, 0, 0]))
}
fn peer(i: u8) -> PeerId { PeerId::from_bytes(&[0u8, 1, i]).unwrap() }

#[kani::proof]
#[kani::unwind(20)]
#[kani::stub(std::hash::RandomState::new, stub_rs_new)]
#[kani::stub(<std::hash::DefaultHasher as std::hash::Hasher>::write, stub_write)]
#[kani::stub(<std::hash::DefaultHasher as std::hash::Hasher>::finish, stub_finish)]
#[kani::stub(std::time::Instant::now, stub_now)]
#[kani::stub(ProviderRecord::distance, stub_distance)]
fn probe_store_put_provider_script() {
    let d: [u64; 4] = kani::any();
    kani::assume(d[0] != d[1] && d[0] != d[2] && d[0] != d[3] && d[1] != d[2] && d[1] != d[3] && d[2] != d[3]);
    unsafe { DIST = d; }
    let max_per_key: usize = kani::any();
    kani::assume(max_per_key >= 1 && max_per_key <= 3);
    let config = MemoryStoreConfig { max_providers_per_key: max_per_key, max_provider_keys: kani::any(), max_provider_addresses: kani::any(), ..Default::default() };
    kani::assume(config.max_provider_keys >= 1);
    let mut store = MemoryStore {
        local_peer_id: peer(9), config, records: HashMap::new(), provider_keys: HashMap::new(), local_providers: HashMap::new(),
        pending_provider_refresh: unsafe { core::mem::MaybeUninit::uninit().assume_init() },
    };
    let key = Key::from(vec![1u8]);
    let mut i = 0u8;
    while i < 4 {
        let _ = store.put_provider(key.clone(), ContentProvider { peer: peer(i), addresses: vec![] });
        i += 1;
    }
    let stored = store.provider_keys.get(&key).unwrap();
    assert!(stored.len() <= max_per_key);
    assert!(stored.len() == max_per_key);
    let mut j = 1;
    while j < stored.len() {
        assert!(stub_distance(&stored[j - 1]) < stub_distance(&stored[j]));
        j += 1;
    }
    // the retained ones are the closest: every stored distance is below every dropped distance
    let mut p = 0u8;
    while p < 4 {
        let dp = d[p as usize];
        let is_stored = stored.iter().any(|r| r.provider == peer(p));
        if !is_stored {
            let mut k = 0;
            while k < stored.len() { assert!(stub_distance(&stored[k]).0 .0[0] < dp); k += 1; }
        }
        p += 1;
    }
    core::mem::forget(store);
}

#[kani::proof]
#[kani::unwind(20)]
#[kani::stub(std::hash::RandomState::new, stub_rs_new)]
#[kani::stub(<std::hash::DefaultHasher as std::hash::Hasher>::write, stub_write)]
#[kani::stub(<std::hash::DefaultHasher as std::hash::Hasher>::finish, stub_finish)]
#[kani::stub(std::time::Instant::now, stub_now)]
#[kani::stub(ProviderRecord::distance, stub_distance)]
fn probe_store_put_provider_step() {
    let d: [u64; 4] = kani::any();
    kani::assume(d[0] < d[1] && d[1] < d[2] && d[3] != d[0] && d[3] != d[1] && d[3] != d[2]);
    unsafe { DIST = d; }
    let max_per_key: usize = kani::any();
    kani::assume(max_per_key >= 1 && max_per_key <= 3);
    let config = MemoryStoreConfig { max_providers_per_key: max_per_key, max_provider_keys: 8, max_provider_addresses: 2, ..Default::default() };
    let key = Key::from(vec![1u8]);
    // arbitrary well-formed per-key vector: sorted prefix P0 < P1 < P2 of length n <= max
    let n: usize = kani::any();
    kani::assume(n >= 1 && n <= max_per_key);
    let mut v = Vec::new();
    let mut i = 0u8;
    while (i as usize) < n {
        v.push(ProviderRecord { key: key.clone(), provider: peer(i), addresses: vec![], expires: stub_now() });
        i += 1;
    }
    let mut provider_keys = HashMap::new();
    provider_keys.insert(key.clone(), v);
    let mut store = MemoryStore {
        local_peer_id: peer(9), config, records: HashMap::new(), provider_keys, local_providers: HashMap::new(),
        pending_provider_refresh: unsafe { core::mem::MaybeUninit::uninit().assume_init() },
    };
    let added = store.put_provider(key.clone(), ContentProvider { peer: peer(3), addresses: vec![] });
    let stored = store.provider_keys.get(&key).unwrap();
    assert!(stored.len() <= max_per_key);
    let mut j = 1;
    while j < stored.len() {
        assert!(stub_distance(&stored[j - 1]) < stub_distance(&stored[j]));
        j += 1;
    }
    let has_new = stored.iter().any(|r| r.provider == peer(3));
    assert!(added == has_new);
    // new provider is kept iff there was room or it is closer than the furthest old one
    let furthest_old = d[n - 1];
    assert!(has_new == (n < max_per_key || d[3] < furthest_old));
    core::mem::forget(store);
}
