use vstd::prelude::*;
verus! {

// ---- prelude: assumed contracts on the `uint` crate type ----
#[verifier::external_body]
#[derive(Copy, Clone)]
struct U256 { _p: [u64; 4] }
impl U256 {
    uninterp spec fn sbit(self, i: int) -> bool;
    #[verifier::external_body]
    fn bit(&self, i: usize) -> (r: bool)
        requires i < 256,
        ensures r == self.sbit(i as int),
    { unimplemented!() }
}

#[derive(Copy, Clone)]
struct Distance(U256);

const NUM_BUCKETS: usize = 256;

#[derive(Debug, Copy, Clone, PartialEq, Eq)]
struct BucketIndex(usize);

impl BucketIndex {
    fn get(&self) -> (r: usize) ensures r == self.0 { self.0 }
}

struct ClosestBucketsIter {
    distance: Distance,
    state: ClosestBucketsIterState,
}

enum ClosestBucketsIterState {
    Start(BucketIndex),
    ZoomIn(BucketIndex),
    ZoomOut(BucketIndex),
    Done,
}

impl ClosestBucketsIter {
    #[verifier::external_body]
    fn next_in(&self, i: BucketIndex) -> (r: Option<BucketIndex>)
        requires i.0 < 256,
        ensures match r {
            Some(j) => j.0 < i.0 && self.distance.0.sbit(j.0 as int) && forall|k: int| j.0 < k < i.0 ==> !self.distance.0.sbit(k),
            None => forall|k: int| 0 <= k < i.0 ==> !self.distance.0.sbit(k),
        }
    { unimplemented!() }

    #[verifier::external_body]
    fn next_out(&self, i: BucketIndex) -> (r: Option<BucketIndex>)
        requires i.0 < 256,
        ensures match r {
            Some(j) => i.0 < j.0 < 256 && !self.distance.0.sbit(j.0 as int) && forall|k: int| i.0 < k < j.0 ==> self.distance.0.sbit(k),
            None => forall|k: int| i.0 < k < 256 ==> self.distance.0.sbit(k),
        }
    { unimplemented!() }

    spec fn wf(&self) -> bool {
        match self.state {
            ClosestBucketsIterState::Start(i) => i.0 < 256,
            ClosestBucketsIterState::ZoomIn(i) => i.0 < 256,
            ClosestBucketsIterState::ZoomOut(i) => i.0 < 256,
            ClosestBucketsIterState::Done => true,
        }
    }

    fn next(&mut self) -> (r: Option<BucketIndex>)
        requires old(self).wf(),
        ensures final(self).wf(),
            final(self).distance == old(self).distance,
            r matches Some(b) ==> b.0 < 256,
            old(self).state matches ClosestBucketsIterState::ZoomIn(i) && i.0 == 0 ==> r == Some(BucketIndex(0)),
    {
        match self.state {
            ClosestBucketsIterState::Start(i) => {
                self.state = ClosestBucketsIterState::ZoomIn(i);
                Some(i)
            }
            ClosestBucketsIterState::ZoomIn(i) =>
                if let Some(i) = self.next_in(i) {
                    self.state = ClosestBucketsIterState::ZoomIn(i);
                    Some(i)
                } else {
                    let i = BucketIndex(0);
                    self.state = ClosestBucketsIterState::ZoomOut(i);
                    Some(i)
                },
            ClosestBucketsIterState::ZoomOut(i) =>
                if let Some(i) = self.next_out(i) {
                    self.state = ClosestBucketsIterState::ZoomOut(i);
                    Some(i)
                } else {
                    self.state = ClosestBucketsIterState::Done;
                    None
                },
            ClosestBucketsIterState::Done => None,
        }
    }
}
}
fn main() {}
