use super::*;

#[kani::proof]
#[kani::unwind(6)]
fn probe_extract_next_batch() {
    let max: usize = kani::any();
    let n: usize = kani::any();
    kani::assume(n <= 3);
    let mut q: VecDeque<(Cid, Vec<u8>)> = VecDeque::new();
    let mut lens = [0usize; 3];
    let mut i = 0;
    while i < n {
        let l: usize = kani::any();
        kani::assume(l <= 1 << 20);
        lens[i] = l;
        let mut v: Vec<u8> = Vec::new();
        // length-only vector: capacity reserved, contents never read by the function under check
        v.reserve(l);
        unsafe { v.set_len(l); }
        q.push_back((Cid::default(), v));
        i += 1;
    }
    // leading oversized blocks
    let mut skip = 0; while skip < n && lens[skip] > max { skip += 1; }
    let taken = match extract_next_batch(&mut q, max) {
        None => { assert!(skip == n); 0 }
        Some(batch) => {
            let cnt = batch.len();
            core::mem::forget(batch);
            cnt
        }
    };
    if skip < n {
        assert!(taken >= 1 && skip + taken <= n);
        let mut sum = 0usize; let mut k = 0; while k < taken { sum += lens[skip + k]; k += 1; }
        assert!(sum <= max);
        if skip + taken < n { assert!(sum + lens[skip + taken] > max); }
    }
    core::mem::forget(q);
}
