use vstd::prelude::*;
use std::collections::HashSet;
use vstd::std_specs::hash::*;
verus! {
#[verifier::external_body]
#[derive(Debug, Hash, PartialEq, Eq)]
struct Multiaddr { _p: Vec<u8> }
impl Clone for Multiaddr {
    #[verifier::external_body]
    fn clone(&self) -> (r: Self) ensures r == *self { unimplemented!() }
}
#[derive(Debug, Copy, Clone, Hash, PartialEq, Eq)]
struct ConnectionId(usize);
#[derive(Debug, Copy, Clone, Hash, PartialEq, Eq)]
enum SupportedTransport { Tcp, WebSocket }
#[derive(Debug, Clone, Hash, PartialEq)]
struct ConnectionRecord { address: Multiaddr, connection_id: ConnectionId }
mod axioms { use super::*;
  pub broadcast proof fn ax1() ensures #[trigger] obeys_key_model::<SupportedTransport>() { admit(); }
  pub broadcast proof fn ax2() ensures #[trigger] obeys_key_model::<Multiaddr>() { admit(); }
}
broadcast use {axioms::ax1, axioms::ax2, vstd::std_specs::hash::group_hash_axioms};
#[derive(Debug, Clone, PartialEq)]
enum PeerState {
    /// `Litep2p` is connected to peer.
    Connected {
        /// The established record of the connection.
        record: ConnectionRecord,

        /// Secondary record, this can either be a dial record or an established connection.
        ///
        /// While the local node was dialing a remote peer, the remote peer might've dialed
        /// the local node and connection was established successfully. The original dial
        /// address is stored for processing later when the dial attempt concludes as
        /// either successful/failed.
        secondary: Option<SecondaryOrDialing>,
    },

    /// Connection to peer is opening over one or more addresses.
    Opening {
        /// Address records used for dialing.
        addresses: HashSet<Multiaddr>,

        /// Connection ID.
        connection_id: ConnectionId,

        /// Active transports.
        transports: HashSet<SupportedTransport>,
    },

    /// Peer is being dialed.
    Dialing {
        /// Address record.
        dial_record: ConnectionRecord,
    },

    /// `Litep2p` is not connected to peer.
    Disconnected {
        /// Dial address, if it exists.
        ///
        /// While the local node was dialing a remote peer, the remote peer might've dialed
        /// the local node and connection was established successfully. The connection might've
        /// been closed before the dial concluded which means that
        /// [`crate::transport::manager::TransportManager`] must be prepared to handle the dial
        /// failure even after the connection has been closed.
        dial_record: Option<ConnectionRecord>,
    },
}

/// The state of the secondary connection.
#[derive(Debug, Clone, PartialEq)]
enum SecondaryOrDialing {
    /// The secondary connection is established.
    Secondary(ConnectionRecord),
    /// The primary connection is established, but the secondary connection is still dialing.
    Dialing(ConnectionRecord),
}

/// Result of initiating a dial.
#[derive(Debug, Clone, PartialEq)]
enum StateDialResult {
    /// The peer is already connected.
    AlreadyConnected,
    /// The dialing state is already in progress.
    DialingInProgress,
    /// The peer is disconnected, start dialing.
    Ok,
}

impl PeerState {
    /// Check if the peer can be dialed.
    fn can_dial(&self) -> StateDialResult {
        match self {
            // The peer is already connected, no need to dial again.
            Self::Connected { .. } => StateDialResult::AlreadyConnected,
            // The dialing state is already in progress, an event will be emitted later.
            Self::Dialing { .. }
            | Self::Opening { .. }
            | Self::Disconnected {
                dial_record: Some(_),
            } => StateDialResult::DialingInProgress,

            Self::Disconnected { dial_record: None } => StateDialResult::Ok,
        }
    }

    /// Dial the peer on a single address.
    fn dial_single_address(&mut self, dial_record: ConnectionRecord) -> StateDialResult {
        match self.can_dial() {
            StateDialResult::Ok => {
                *self = PeerState::Dialing { dial_record };
                StateDialResult::Ok
            }
            reason => reason,
        }
    }

    /// Dial the peer on multiple addresses.
    fn dial_addresses(
        &mut self,
        connection_id: ConnectionId,
        addresses: HashSet<Multiaddr>,
        transports: HashSet<SupportedTransport>,
    ) -> StateDialResult {
        match self.can_dial() {
            StateDialResult::Ok => {
                *self = PeerState::Opening {
                    addresses,
                    connection_id,
                    transports,
                };
                StateDialResult::Ok
            }
            reason => reason,
        }
    }

    /// Handle dial failure.
    ///
    /// # Transitions
    ///
    /// - [`PeerState::Dialing`] (with record) -> [`PeerState::Disconnected`]
    /// - [`PeerState::Connected`] (with dial record) -> [`PeerState::Connected`]
    /// - [`PeerState::Disconnected`] (with dial record) -> [`PeerState::Disconnected`]
    ///
    /// Returns `true` if the connection was handled.
    fn on_dial_failure(&mut self, connection_id: ConnectionId) -> bool {
        match self {
            // Clear the dial record if the connection ID matches.
            Self::Dialing { dial_record } =>
                if dial_record.connection_id == connection_id {
                    *self = Self::Disconnected { dial_record: None };
                    return true;
                },

            Self::Connected {
                record,
                secondary: Some(SecondaryOrDialing::Dialing(dial_record)),
            } =>
                if dial_record.connection_id == connection_id {
                    *self = Self::Connected {
                        record: record.clone(),
                        secondary: None,
                    };
                    return true;
                },

            Self::Disconnected {
                dial_record: Some(dial_record),
            } =>
                if dial_record.connection_id == connection_id {
                    *self = Self::Disconnected { dial_record: None };
                    return true;
                },

            Self::Opening { .. } | Self::Connected { .. } | Self::Disconnected { .. } =>
                return false,
        };

        false
    }





    /// Returns `true` if the last transport failed to open.
    fn on_open_failure(&mut self, transport: SupportedTransport) -> bool {
        match self {
            Self::Opening { transports, .. } => {
                transports.remove(&transport);

                if transports.is_empty() {
                    *self = Self::Disconnected { dial_record: None };
                    return true;
                }

                false
            }
            _ => false,
        }
    }

    /// Returns `true` if the connection was opened.
    fn on_connection_opened(&mut self, record: ConnectionRecord) -> bool {
        match self {
            Self::Opening {
                addresses,
                connection_id,
                ..
            } => {
                if record.connection_id != *connection_id || !addresses.contains(&record.address) {
                    
                }

                *self = Self::Dialing {
                    dial_record: record.clone(),
                };

                true
            }
            _ => false,
        }
    }
}


}
fn main(){}
