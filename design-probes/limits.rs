use super::*;
use std::hash::Hasher;

fn stub_rs_new() -> std::hash::RandomState { unsafe { core::mem::transmute::<[u64; 2], std::hash::RandomState>([0, 0]) } }
fn stub_write(_h: &mut std::hash::DefaultHasher, _b: &[u8]) {}
fn stub_finish(_h: &std::hash::DefaultHasher) -> u64 { 0 }

#[kani::proof]
#[kani::unwind(6)]
#[kani::stub(std::hash::RandomState::new, stub_rs_new)]
#[kani::stub(<std::hash::DefaultHasher as std::hash::Hasher>::write, stub_write)]
#[kani::stub(<std::hash::DefaultHasher as std::hash::Hasher>::finish, stub_finish)]
fn probe_limits_consthash() {
    let max_in: Option<usize> = kani::any();
    let max_out: Option<usize> = kani::any();
    let mut l = ConnectionLimits { config: ConnectionLimitsConfig { max_incoming_connections: max_in, max_outgoing_connections: max_out }, incoming_connections: HashSet::new(), outgoing_connections: HashSet::new() };
    let a: usize = kani::any();
    let b: usize = kani::any();
    let la: bool = kani::any();
    let lb: bool = kani::any();
    if l.can_accept_connection(la).is_ok() { l.accept_established_connection(ConnectionId::from(a), la); }
    if l.can_accept_connection(lb).is_ok() { l.accept_established_connection(ConnectionId::from(b), lb); }
    if let Some(m) = max_in { assert!(l.incoming_connections.len() <= m); }
    if let Some(m) = max_out { assert!(l.outgoing_connections.len() <= m); }
    l.on_connection_closed(ConnectionId::from(a));
    assert!(!l.incoming_connections.contains(&ConnectionId::from(a)));
    core::mem::forget(l);
}

#[kani::proof]
#[kani::unwind(6)]
#[kani::stub(std::hash::RandomState::new, stub_rs_new)]
#[kani::stub(<std::hash::DefaultHasher as std::hash::Hasher>::write, stub_write)]
#[kani::stub(<std::hash::DefaultHasher as std::hash::Hasher>::finish, stub_finish)]
fn probe_limits_concrete_keys() {
    let max_in: Option<usize> = kani::any();
    let max_out: Option<usize> = kani::any();
    let mut l = ConnectionLimits { config: ConnectionLimitsConfig { max_incoming_connections: max_in, max_outgoing_connections: max_out }, incoming_connections: HashSet::new(), outgoing_connections: HashSet::new() };
    let la: bool = kani::any();
    let lb: bool = kani::any();
    if l.can_accept_connection(la).is_ok() { l.accept_established_connection(ConnectionId::from(1usize), la); }
    if l.can_accept_connection(lb).is_ok() { l.accept_established_connection(ConnectionId::from(2usize), lb); }
    if let Some(m) = max_in { assert!(l.incoming_connections.len() <= m); }
    if let Some(m) = max_out { assert!(l.outgoing_connections.len() <= m); }
    l.on_connection_closed(ConnectionId::from(1usize));
    assert!(!l.incoming_connections.contains(&ConnectionId::from(1usize)));
    core::mem::forget(l);
}

#[kani::proof]
#[kani::unwind(20)]
#[kani::stub(std::hash::RandomState::new, stub_rs_new)]
#[kani::stub(<std::hash::DefaultHasher as std::hash::Hasher>::write, stub_write)]
#[kani::stub(<std::hash::DefaultHasher as std::hash::Hasher>::finish, stub_finish)]
fn probe_hashmap_min() {
    let mut m: std::collections::HashMap<u8, u8> = std::collections::HashMap::new();
    m.insert(1, 2);
    assert!(m.get(&1) == Some(&2));
    core::mem::forget(m);
}
