use super::*;
use crate::protocol::libp2p::kademlia::types::verif_probe_types_fab::{fab_key, key_bytes};
use crate::transport::manager::address::AddressStore;

fn stub_rs_new() -> std::hash::RandomState { unsafe { core::mem::transmute::<[u64; 2], std::hash::RandomState>([0, 0]) } }
fn fixed_peer(i: u8) -> PeerId { PeerId::from_bytes(&[0u8, 1, i]).unwrap() }
fn stub_random() -> PeerId { fixed_peer(200) }
fn stub_peer_new(peer: PeerId, _a: Vec<multiaddr::Multiaddr>, connection: ConnectionType) -> KademliaPeer {
    KademliaPeer { key: fab_key(peer, [0xEE; 32]), peer, address_store: AddressStore::default(), connection }
}

fn any_conn() -> ConnectionType {
    match kani::any::<u8>() % 4 { 0 => ConnectionType::NotConnected, 1 => ConnectionType::Connected, 2 => ConnectionType::CanConnect, _ => ConnectionType::CannotConnect }
}

#[kani::proof]
#[kani::unwind(22)]
#[kani::stub(std::hash::RandomState::new, stub_rs_new)]
#[kani::stub(PeerId::random, stub_random)]
#[kani::stub(KademliaPeer::new, stub_peer_new)]
fn probe_kbucket_entry() {
    let n: usize = kani::any();
    kani::assume(n <= 20);
    let mut bucket = KBucket::new();
    let mut conns = [ConnectionType::NotConnected; 20];
    let mut keys = [[0u8; 32]; 20];
    let mut i = 0;
    while i < n {
        let kb: [u8; 32] = kani::any();
        kani::assume(kb[0] != 0xEE); // distinct from the placeholder key the stub produces
        let c = any_conn();
        conns[i] = c; keys[i] = kb;
        bucket.nodes.push(KademliaPeer { key: fab_key(fixed_peer(i as u8), kb), peer: fixed_peer(i as u8), address_store: AddressStore::default(), connection: c });
        i += 1;
    }
    let target: [u8; 32] = kani::any();
    kani::assume(target[0] != 0xEE);
    let present = { let mut p = false; let mut j = 0; while j < n { if keys[j] == target { p = true; } j += 1; } p };
    let e = bucket.entry(fab_key(fixed_peer(100), target));
    match e {
        KBucketEntry::Occupied(p) => { assert!(present); assert!(key_bytes(&p.key) == target); }
        KBucketEntry::Vacant(p) => {
            assert!(!present);
            if n == 20 { assert!(matches!(p.connection, ConnectionType::NotConnected | ConnectionType::CannotConnect)); }
        }
        KBucketEntry::NoSlot => {
            assert!(!present && n == 20);
            let mut j = 0; while j < 20 { assert!(matches!(conns[j], ConnectionType::Connected | ConnectionType::CanConnect)); j += 1; }
        }
        KBucketEntry::LocalNode => assert!(false),
    }
    assert!(bucket.nodes.len() <= 20);
    core::mem::forget(bucket);
}
