use vstd::prelude::*;
use std::collections::HashSet;
use vstd::std_specs::hash::*;
verus! {

// ---- prelude (trusted): opaque external types ----
#[verifier::external_body]
#[derive(Copy, Clone, PartialEq, Eq, Hash, Debug)]
struct PeerId { _p: [u8; 66] }
#[derive(Copy, Clone, PartialEq, Eq, Hash, Debug)]
struct QueryId(usize);
#[verifier::external_body]
#[derive(Debug)]
struct RecordKey { _p: Vec<u8> }

mod axioms {
    use super::*;
    pub broadcast proof fn axiom_peer_id_key_model()
        ensures #[trigger] obeys_key_model::<PeerId>(),
    { admit(); }
}
broadcast use {axioms::axiom_peer_id_key_model, vstd::std_specs::hash::group_hash_axioms};

enum QueryAction {
    QuerySucceeded { query: QueryId },
    QueryFailed { query: QueryId },
}

#[derive(Debug)]
struct PutToTargetPeersContext {
    query: QueryId,
    key: RecordKey,
    peers_to_succeed: usize,
    pending_peers: HashSet<PeerId>,
    n_succeeded: usize,
}

impl PutToTargetPeersContext {
    fn register_send_success(&mut self, peer: PeerId)
        requires old(self).n_succeeded < usize::MAX,
        ensures
            old(self).pending_peers@.contains(peer) ==> final(self).n_succeeded == old(self).n_succeeded + 1,
            !old(self).pending_peers@.contains(peer) ==> final(self).n_succeeded == old(self).n_succeeded,
            final(self).pending_peers@ == old(self).pending_peers@.remove(peer),
            final(self).peers_to_succeed == old(self).peers_to_succeed,
    {
        if self.pending_peers.remove(&peer) {
            self.n_succeeded += 1;

        } else {
        }
    }

    fn register_send_failure(&mut self, peer: PeerId)
        ensures
            final(self).n_succeeded == old(self).n_succeeded,
            final(self).pending_peers@ == old(self).pending_peers@.remove(peer),
    {
        if self.pending_peers.remove(&peer) {
        } else {
        }
    }

    fn is_finished(&self) -> (r: bool)
        ensures r == (self.pending_peers@.len() == 0)
    {
        self.pending_peers.is_empty()
    }

    fn is_succeded(&self) -> (r: bool)
        ensures r == (self.n_succeeded >= self.peers_to_succeed)
    {
        self.n_succeeded >= self.peers_to_succeed
    }

    fn next_action(&self) -> (r: Option<QueryAction>)
        ensures
            r matches Some(QueryAction::QuerySucceeded{..}) ==> self.pending_peers@.len() == 0 && self.n_succeeded >= self.peers_to_succeed,
            r is None <==> self.pending_peers@.len() != 0,
    {
        if self.is_finished() {
            if self.is_succeded() {
                Some(QueryAction::QuerySucceeded { query: self.query })
            } else {
                Some(QueryAction::QueryFailed { query: self.query })
            }
        } else {
            None
        }
    }
}
}
fn main() {}
