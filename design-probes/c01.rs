use super::*;

static mut PARSE_CALLS: u8 = 0;
static mut VRFY_CALLS: u8 = 0;
static mut PARSE_ARG_OK: bool = false;
static mut VRFY_MSG_OK: bool = false;
static mut VRFY_SIG_OK: bool = false;
static mut VRFY_RET: bool = false;
static mut PID_ARG_OK: bool = false;
static mut K: [u8; 4] = [0; 4];
static mut KLEN: usize = 0;
static mut S: [u8; 4] = [0; 4];
static mut SLEN: usize = 0;
static mut DH: [u8; 32] = [0; 32];

fn same(a: &[u8], b: &[u8]) -> bool {
    if a.len() != b.len() { return false; }
    let mut i = 0; while i < a.len() { if a[i] != b[i] { return false; } i += 1; } true
}
fn stub_parse(bytes: &[u8]) -> Result<RemotePublicKey, ParseError> {
    unsafe { PARSE_CALLS += 1; PARSE_ARG_OK = same(bytes, &K[..KLEN]); }
    if kani::any() { Err(ParseError::InvalidPublicKey) } else { Ok(unsafe { core::mem::MaybeUninit::uninit().assume_init() }) }
}
fn stub_verify(_this: &RemotePublicKey, msg: &[u8], sig: &[u8]) -> bool {
    unsafe {
        VRFY_CALLS += 1;
        let dom = STATIC_KEY_DOMAIN.as_bytes();
        VRFY_MSG_OK = msg.len() == dom.len() + 32 && same(&msg[..dom.len()], dom) && same(&msg[dom.len()..], &DH);
        VRFY_SIG_OK = same(sig, &S[..SLEN]);
        VRFY_RET = kani::any();
        VRFY_RET
    }
}
fn stub_pid(key_enc: &[u8]) -> PeerId {
    unsafe { PID_ARG_OK = same(key_enc, &K[..KLEN]); }
    PeerId::from_bytes(&[0u8, 1, 42]).unwrap()
}

#[kani::proof]
#[kani::unwind(60)]
#[kani::stub(RemotePublicKey::from_protobuf_encoding, stub_parse)]
#[kani::stub(RemotePublicKey::verify, stub_verify)]
#[kani::stub(PeerId::from_public_key_protobuf, stub_pid)]
fn probe_c01_parse_and_verify() {
    let k: [u8; 4] = kani::any(); let klen: usize = kani::any(); kani::assume(klen <= 4);
    let s: [u8; 4] = kani::any(); let slen: usize = kani::any(); kani::assume(slen <= 4);
    let dh: [u8; 32] = kani::any();
    unsafe { K = k; KLEN = klen; S = s; SLEN = slen; DH = dh; }
    let has_k: bool = kani::any(); let has_s: bool = kani::any();
    let payload = handshake_schema::NoiseHandshakePayload {
        identity_key: if has_k { Some(k[..klen].to_vec()) } else { None },
        identity_sig: if has_s { Some(s[..slen].to_vec()) } else { None },
        ..Default::default()
    };
    let r = parse_and_verify_peer_id(payload, &dh);
    match r {
        Ok(p) => unsafe {
            assert!(has_k && has_s);
            assert!(PARSE_CALLS == 1 && PARSE_ARG_OK);
            assert!(VRFY_CALLS == 1 && VRFY_MSG_OK && VRFY_SIG_OK && VRFY_RET);
            assert!(PID_ARG_OK);
            assert!(p == PeerId::from_bytes(&[0u8, 1, 42]).unwrap());
        },
        Err(_) => {}
    }
    core::mem::forget(r);
}
