use super::*;

pub(super) struct VerifIo { polls_left: u8 }
impl AsyncRead for VerifIo {
    fn poll_read(mut self: Pin<&mut Self>, _cx: &mut Context<'_>, buf: &mut [u8]) -> Poll<io::Result<usize>> {
        if self.polls_left == 0 { return Poll::Pending; }
        self.polls_left -= 1;
        match kani::any::<u8>() % 3 {
            0 => Poll::Pending,
            1 => Poll::Ready(Err(io::ErrorKind::BrokenPipe.into())),
            _ => { let n: usize = kani::any(); kani::assume(n <= buf.len()); Poll::Ready(Ok(n)) }
        }
    }
}
impl AsyncWrite for VerifIo {
    fn poll_write(mut self: Pin<&mut Self>, _cx: &mut Context<'_>, buf: &[u8]) -> Poll<io::Result<usize>> {
        if self.polls_left == 0 { return Poll::Pending; }
        self.polls_left -= 1;
        match kani::any::<u8>() % 3 {
            0 => Poll::Pending,
            1 => Poll::Ready(Err(io::ErrorKind::BrokenPipe.into())),
            _ => { let n: usize = kani::any(); kani::assume(n <= buf.len()); Poll::Ready(Ok(n)) }
        }
    }
    fn poll_flush(self: Pin<&mut Self>, _cx: &mut Context<'_>) -> Poll<io::Result<()>> { if kani::any() { Poll::Pending } else { Poll::Ready(Ok(())) } }
    fn poll_close(self: Pin<&mut Self>, _cx: &mut Context<'_>) -> Poll<io::Result<()>> { Poll::Ready(Ok(())) }
}

static mut PLAINTEXT_SEEN: usize = 0;

fn cipher_write(_this: &mut NoiseContext, message: &[u8], out: &mut [u8]) -> Result<usize, snow::Error> {
    assert!(message.len() <= MAX_FRAME_LEN);
    assert!(out.len() >= message.len() + NOISE_EXTRA_ENCRYPT_SPACE);
    unsafe { PLAINTEXT_SEEN += message.len(); }
    if kani::any() { Err(snow::Error::Input) } else { Ok(message.len() + NOISE_EXTRA_ENCRYPT_SPACE) }
}

#[kani::proof]
#[kani::unwind(5)]
#[kani::stub(NoiseContext::write_message, cipher_write)]
fn probe_noise_poll_write_step() {
    let wbuf: usize = 1 + (kani::any::<u8>() % 2) as usize; // max_write_buffer_size in 1..=2
    let elen = wbuf * (MAX_NOISE_MSG_LEN + 2);
    let write_state = if kani::any() { WriteState::Idle } else {
        let offset: usize = kani::any(); let encrypted_len: usize = kani::any();
        kani::assume(offset < encrypted_len && encrypted_len <= elen);
        WriteState::Writing { offset, encrypted_len }
    };
    let noise: NoiseContext = unsafe { core::mem::MaybeUninit::uninit().assume_init() };
    let mut sock = NoiseSocket {
        io: VerifIo { polls_left: 1 }, noise, current_frame_size: None, write_state,
        encrypt_buffer: vec![0u8; elen], offset: 0, nread: 0,
        read_state: ReadState::ReadData { max_read: 0 }, read_buffer: Vec::new(), canonical_max_read: 0,
        decrypt_buffer: None, peer: PeerId::from_bytes(&[0u8, 1, 7]).unwrap(), ty: HandshakeTransport::Tcp,
    };
    let data = vec![0u8; 3 * MAX_FRAME_LEN];
    let len: usize = kani::any();
    kani::assume(len <= data.len());
    let waker = futures::task::noop_waker();
    let mut cx = Context::from_waker(&waker);
    let r = Pin::new(&mut sock).poll_write(&mut cx, &data[..len]);
    if let Poll::Ready(Ok(n)) = r {
        assert!(n <= len);
        assert!(len == 0 || n >= 1);
        assert!(unsafe { PLAINTEXT_SEEN } == n);
    }
    match sock.write_state {
        WriteState::Idle => {}
        WriteState::Writing { offset, encrypted_len } => assert!(offset < encrypted_len && encrypted_len <= elen),
    }
    core::mem::forget(sock);
}

fn cipher_read(_this: &mut NoiseContext, message: &[u8], out: &mut [u8]) -> Result<usize, snow::Error> {
    assert!(message.len() >= NOISE_EXTRA_ENCRYPT_SPACE);
    assert!(out.len() >= message.len() - NOISE_EXTRA_ENCRYPT_SPACE);
    if kani::any() { Err(snow::Error::Decrypt) } else { Ok(message.len() - NOISE_EXTRA_ENCRYPT_SPACE) }
}

fn inv(s: &NoiseSocket<VerifIo>) -> bool {
    let l = s.read_buffer.len();
    let cmr = s.canonical_max_read;
    if l != cmr + 2 + MAX_NOISE_MSG_LEN { return false; }
    if !(s.offset <= s.nread && s.nread <= l) { return false; }
    if let Some(f) = s.current_frame_size { if f > 65535 { return false; } }
    match &s.read_state {
        ReadState::ReadData { max_read } => {
            let mr = *max_read;
            if !(s.nread <= mr && mr <= l) { return false; }
            if s.decrypt_buffer.is_none() { return false; }
            match s.current_frame_size {
                None => mr == cmr && s.nread < cmr,
                Some(f) => {
                    let remaining = s.nread - s.offset;
                    remaining < f && ((mr == cmr && s.nread < cmr) || mr == s.offset + f)
                }
            }
        }
        ReadState::ReadFrameLen => {
            if s.decrypt_buffer.is_none() { return false; }
            // normal-mode data never exceeds the canonical limit unless a frame is being completed in the tail
            match s.current_frame_size {
                None => s.nread <= cmr,
                Some(f) => s.nread <= cmr || s.nread <= s.offset + f,
            }
        }
        ReadState::ProcessNextFrame { pending, offset, size, frame_size } => match pending {
            None => match s.current_frame_size {
                Some(f) => f > NOISE_EXTRA_ENCRYPT_SPACE && s.offset + f <= s.nread && s.decrypt_buffer.as_ref().map_or(false, |b| b.len() == MAX_FRAME_LEN),
                None => false,
            },
            Some(b) => b.len() == MAX_FRAME_LEN && *offset <= *size && *size <= b.len() && s.offset + *frame_size <= s.nread && s.decrypt_buffer.is_none() && s.current_frame_size.is_none(),
        },
    }
}

#[kani::proof]
#[kani::unwind(8)]
#[kani::stub(NoiseContext::read_message, cipher_read)]
fn probe_noise_poll_read_step() {
    let cmr = MAX_NOISE_MSG_LEN; // read-ahead factor 1
    let l = cmr + 2 + MAX_NOISE_MSG_LEN;
    let mut read_buffer = vec![0u8; l];
    let offset: usize = kani::any();
    let nread: usize = kani::any();
    kani::assume(offset <= nread && nread <= l);
    if offset + 1 < l { read_buffer[offset] = kani::any(); read_buffer[offset + 1] = kani::any(); }
    let current_frame_size: Option<usize> = kani::any();
    let (read_state, decrypt_buffer) = match kani::any::<u8>() % 4 {
        0 => (ReadState::ReadData { max_read: kani::any() }, Some(vec![0u8; MAX_FRAME_LEN])),
        1 => (ReadState::ReadFrameLen, Some(vec![0u8; MAX_FRAME_LEN])),
        2 => (ReadState::ProcessNextFrame { pending: None, offset: 0, size: 0, frame_size: 0 }, Some(vec![0u8; MAX_FRAME_LEN])),
        _ => (ReadState::ProcessNextFrame { pending: Some(vec![0u8; MAX_FRAME_LEN]), offset: kani::any(), size: kani::any(), frame_size: kani::any() }, None),
    };
    let noise: NoiseContext = unsafe { core::mem::MaybeUninit::uninit().assume_init() };
    let mut sock = NoiseSocket {
        io: VerifIo { polls_left: 1 }, noise, current_frame_size, write_state: WriteState::Idle,
        encrypt_buffer: Vec::new(), offset, nread, read_state, read_buffer, canonical_max_read: cmr,
        decrypt_buffer, peer: PeerId::from_bytes(&[0u8, 1, 7]).unwrap(), ty: HandshakeTransport::Tcp,
    };
    kani::assume(inv(&sock));
    let mut out = vec![0u8; 70000];
    let blen: usize = kani::any();
    kani::assume(blen <= out.len());
    let waker = futures::task::noop_waker();
    let mut cx = Context::from_waker(&waker);
    let r = Pin::new(&mut sock).poll_read(&mut cx, &mut out[..blen]);
    match r {
        Poll::Ready(Ok(n)) => { assert!(n <= blen); assert!(inv(&sock)); }
        Poll::Pending => assert!(inv(&sock)),
        Poll::Ready(Err(_)) => {}
    }
    core::mem::forget(sock);
}

#[kani::proof]
#[kani::unwind(8)]
#[kani::stub(NoiseContext::read_message, cipher_read)]
fn probe_noise_read_s0() {
    let cmr = MAX_NOISE_MSG_LEN; // read-ahead factor 1
    let l = cmr + 2 + MAX_NOISE_MSG_LEN;
    let mut read_buffer = vec![0u8; l];
    let offset: usize = kani::any();
    let nread: usize = kani::any();
    kani::assume(offset <= nread && nread <= l);
    if offset + 1 < l { read_buffer[offset] = kani::any(); read_buffer[offset + 1] = kani::any(); }
    let current_frame_size: Option<usize> = kani::any();
    let (read_state, decrypt_buffer) = match 0u8 {
        0 => (ReadState::ReadData { max_read: kani::any() }, Some(vec![0u8; MAX_FRAME_LEN])),
        1 => (ReadState::ReadFrameLen, Some(vec![0u8; MAX_FRAME_LEN])),
        2 => (ReadState::ProcessNextFrame { pending: None, offset: 0, size: 0, frame_size: 0 }, Some(vec![0u8; MAX_FRAME_LEN])),
        _ => (ReadState::ProcessNextFrame { pending: Some(vec![0u8; MAX_FRAME_LEN]), offset: kani::any(), size: kani::any(), frame_size: kani::any() }, None),
    };
    let noise: NoiseContext = unsafe { core::mem::MaybeUninit::uninit().assume_init() };
    let mut sock = NoiseSocket {
        io: VerifIo { polls_left: 1 }, noise, current_frame_size, write_state: WriteState::Idle,
        encrypt_buffer: Vec::new(), offset, nread, read_state, read_buffer, canonical_max_read: cmr,
        decrypt_buffer, peer: PeerId::from_bytes(&[0u8, 1, 7]).unwrap(), ty: HandshakeTransport::Tcp,
    };
    kani::assume(inv(&sock));
    let mut out = vec![0u8; 70000];
    let blen: usize = kani::any();
    kani::assume(blen <= out.len());
    let waker = futures::task::noop_waker();
    let mut cx = Context::from_waker(&waker);
    let r = Pin::new(&mut sock).poll_read(&mut cx, &mut out[..blen]);
    match r {
        Poll::Ready(Ok(n)) => { assert!(n <= blen); assert!(inv(&sock)); }
        Poll::Pending => assert!(inv(&sock)),
        Poll::Ready(Err(_)) => {}
    }
    core::mem::forget(sock);
}

#[kani::proof]
#[kani::unwind(4)]
#[kani::stub(NoiseContext::read_message, cipher_read)]
fn probe_noise_read_s1() {
    let cmr = MAX_NOISE_MSG_LEN; // read-ahead factor 1
    let l = cmr + 2 + MAX_NOISE_MSG_LEN;
    let mut read_buffer = vec![0u8; l];
    let offset: usize = kani::any();
    let nread: usize = kani::any();
    kani::assume(offset <= nread && nread <= l);
    if offset + 1 < l { read_buffer[offset] = kani::any(); read_buffer[offset + 1] = kani::any(); }
    let current_frame_size: Option<usize> = kani::any();
    let (read_state, decrypt_buffer) = match 1u8 {
        0 => (ReadState::ReadData { max_read: kani::any() }, Some(vec![0u8; MAX_FRAME_LEN])),
        1 => (ReadState::ReadFrameLen, Some(vec![0u8; MAX_FRAME_LEN])),
        2 => (ReadState::ProcessNextFrame { pending: None, offset: 0, size: 0, frame_size: 0 }, Some(vec![0u8; MAX_FRAME_LEN])),
        _ => (ReadState::ProcessNextFrame { pending: Some(vec![0u8; MAX_FRAME_LEN]), offset: kani::any(), size: kani::any(), frame_size: kani::any() }, None),
    };
    let noise: NoiseContext = unsafe { core::mem::MaybeUninit::uninit().assume_init() };
    let mut sock = NoiseSocket {
        io: VerifIo { polls_left: 1 }, noise, current_frame_size, write_state: WriteState::Idle,
        encrypt_buffer: Vec::new(), offset, nread, read_state, read_buffer, canonical_max_read: cmr,
        decrypt_buffer, peer: PeerId::from_bytes(&[0u8, 1, 7]).unwrap(), ty: HandshakeTransport::Tcp,
    };
    kani::assume(inv(&sock));
    let mut out = vec![0u8; 70000];
    let blen: usize = kani::any();
    kani::assume(blen <= out.len());
    let waker = futures::task::noop_waker();
    let mut cx = Context::from_waker(&waker);
    let r = Pin::new(&mut sock).poll_read(&mut cx, &mut out[..blen]);
    match r {
        Poll::Ready(Ok(n)) => { assert!(n <= blen); assert!(inv(&sock)); }
        Poll::Pending => assert!(inv(&sock)),
        Poll::Ready(Err(_)) => {}
    }
    core::mem::forget(sock);
}

#[kani::proof]
#[kani::unwind(8)]
#[kani::stub(NoiseContext::read_message, cipher_read)]
fn probe_noise_read_s2() {
    let cmr = MAX_NOISE_MSG_LEN; // read-ahead factor 1
    let l = cmr + 2 + MAX_NOISE_MSG_LEN;
    let mut read_buffer = vec![0u8; l];
    let offset: usize = kani::any();
    let nread: usize = kani::any();
    kani::assume(offset <= nread && nread <= l);
    if offset + 1 < l { read_buffer[offset] = kani::any(); read_buffer[offset + 1] = kani::any(); }
    let current_frame_size: Option<usize> = kani::any();
    let (read_state, decrypt_buffer) = match 2u8 {
        0 => (ReadState::ReadData { max_read: kani::any() }, Some(vec![0u8; MAX_FRAME_LEN])),
        1 => (ReadState::ReadFrameLen, Some(vec![0u8; MAX_FRAME_LEN])),
        2 => (ReadState::ProcessNextFrame { pending: None, offset: 0, size: 0, frame_size: 0 }, Some(vec![0u8; MAX_FRAME_LEN])),
        _ => (ReadState::ProcessNextFrame { pending: Some(vec![0u8; MAX_FRAME_LEN]), offset: kani::any(), size: kani::any(), frame_size: kani::any() }, None),
    };
    let noise: NoiseContext = unsafe { core::mem::MaybeUninit::uninit().assume_init() };
    let mut sock = NoiseSocket {
        io: VerifIo { polls_left: 1 }, noise, current_frame_size, write_state: WriteState::Idle,
        encrypt_buffer: Vec::new(), offset, nread, read_state, read_buffer, canonical_max_read: cmr,
        decrypt_buffer, peer: PeerId::from_bytes(&[0u8, 1, 7]).unwrap(), ty: HandshakeTransport::Tcp,
    };
    kani::assume(inv(&sock));
    let mut out = vec![0u8; 70000];
    let blen: usize = kani::any();
    kani::assume(blen <= out.len());
    let waker = futures::task::noop_waker();
    let mut cx = Context::from_waker(&waker);
    let r = Pin::new(&mut sock).poll_read(&mut cx, &mut out[..blen]);
    match r {
        Poll::Ready(Ok(n)) => { assert!(n <= blen); assert!(inv(&sock)); }
        Poll::Pending => assert!(inv(&sock)),
        Poll::Ready(Err(_)) => {}
    }
    core::mem::forget(sock);
}

#[kani::proof]
#[kani::unwind(8)]
#[kani::stub(NoiseContext::read_message, cipher_read)]
fn probe_noise_read_s3() {
    let cmr = MAX_NOISE_MSG_LEN; // read-ahead factor 1
    let l = cmr + 2 + MAX_NOISE_MSG_LEN;
    let mut read_buffer = vec![0u8; l];
    let offset: usize = kani::any();
    let nread: usize = kani::any();
    kani::assume(offset <= nread && nread <= l);
    if offset + 1 < l { read_buffer[offset] = kani::any(); read_buffer[offset + 1] = kani::any(); }
    let current_frame_size: Option<usize> = kani::any();
    let (read_state, decrypt_buffer) = match 3u8 {
        0 => (ReadState::ReadData { max_read: kani::any() }, Some(vec![0u8; MAX_FRAME_LEN])),
        1 => (ReadState::ReadFrameLen, Some(vec![0u8; MAX_FRAME_LEN])),
        2 => (ReadState::ProcessNextFrame { pending: None, offset: 0, size: 0, frame_size: 0 }, Some(vec![0u8; MAX_FRAME_LEN])),
        _ => (ReadState::ProcessNextFrame { pending: Some(vec![0u8; MAX_FRAME_LEN]), offset: kani::any(), size: kani::any(), frame_size: kani::any() }, None),
    };
    let noise: NoiseContext = unsafe { core::mem::MaybeUninit::uninit().assume_init() };
    let mut sock = NoiseSocket {
        io: VerifIo { polls_left: 1 }, noise, current_frame_size, write_state: WriteState::Idle,
        encrypt_buffer: Vec::new(), offset, nread, read_state, read_buffer, canonical_max_read: cmr,
        decrypt_buffer, peer: PeerId::from_bytes(&[0u8, 1, 7]).unwrap(), ty: HandshakeTransport::Tcp,
    };
    kani::assume(inv(&sock));
    let mut out = vec![0u8; 70000];
    let blen: usize = kani::any();
    kani::assume(blen <= out.len());
    let waker = futures::task::noop_waker();
    let mut cx = Context::from_waker(&waker);
    let r = Pin::new(&mut sock).poll_read(&mut cx, &mut out[..blen]);
    match r {
        Poll::Ready(Ok(n)) => { assert!(n <= blen); assert!(inv(&sock)); }
        Poll::Pending => assert!(inv(&sock)),
        Poll::Ready(Err(_)) => {}
    }
    core::mem::forget(sock);
}
