use super::*;

#[kani::proof]
#[kani::unwind(10)]
fn probe_message_decode_total() {
    let len: usize = kani::any();
    kani::assume(len <= 6);
    let data: [u8; 6] = kani::any();
    let msg = Bytes::copy_from_slice(&data[..len]);
    let _ = Message::decode(msg);
}
