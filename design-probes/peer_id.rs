use super::*;

#[kani::proof]
#[kani::unwind(66)]
fn probe_from_multihash_agrees_with_reference() {
    let code: u64 = kani::any();
    let len: usize = kani::any();
    kani::assume(len <= 64);
    let digest: [u8; 64] = kani::any();
    let mh = Multihash::wrap(code, &digest[..len]).unwrap();
    let ours = PeerId::from_multihash(mh);
    let reference = multiaddr::PeerId::try_from(mh);
    assert!(ours.is_ok() == reference.is_ok());
    if let Ok(p) = ours {
        // infallible conversion never panics
        let _m: multiaddr::PeerId = p.into();
    }
}

#[kani::proof]
#[kani::unwind(66)]
fn probe_failing_for_playback() {
    let code: u64 = kani::any();
    let len: usize = kani::any();
    kani::assume(len <= 64);
    let digest: [u8; 64] = kani::any();
    let mh = Multihash::wrap(code, &digest[..len]).unwrap();
    if let Ok(_) = PeerId::from_multihash(mh) { assert!(code == 0x12); }
}

/// Test generated for harness `peer_id::verif_probe_peer_id::probe_failing_for_playback`
///
/// Check for `assertion`: "assertion failed: code == 0x12"

#[test]
fn kani_concrete_playback_probe_failing_for_playback_18046870518187373679() {
    let concrete_vals: Vec<Vec<u8>> = vec![
        // 0ul
        vec![0, 0, 0, 0, 0, 0, 0, 0],
        // 0ul
        vec![0, 0, 0, 0, 0, 0, 0, 0],
        // 255
        vec![255],
        // 255
        vec![255],
        // 255
        vec![255],
        // 255
        vec![255],
        // 255
        vec![255],
        // 255
        vec![255],
        // 255
        vec![255],
        // 255
        vec![255],
        // 255
        vec![255],
        // 255
        vec![255],
        // 255
        vec![255],
        // 255
        vec![255],
        // 255
        vec![255],
        // 255
        vec![255],
        // 255
        vec![255],
        // 255
        vec![255],
        // 255
        vec![255],
        // 255
        vec![255],
        // 255
        vec![255],
        // 255
        vec![255],
        // 255
        vec![255],
        // 255
        vec![255],
        // 255
        vec![255],
        // 255
        vec![255],
        // 255
        vec![255],
        // 255
        vec![255],
        // 255
        vec![255],
        // 255
        vec![255],
        // 255
        vec![255],
        // 255
        vec![255],
        // 255
        vec![255],
        // 255
        vec![255],
        // 255
        vec![255],
        // 255
        vec![255],
        // 255
        vec![255],
        // 255
        vec![255],
        // 255
        vec![255],
        // 255
        vec![255],
        // 255
        vec![255],
        // 255
        vec![255],
        // 255
        vec![255],
        // 255
        vec![255],
        // 255
        vec![255],
        // 255
        vec![255],
        // 255
        vec![255],
        // 255
        vec![255],
        // 255
        vec![255],
        // 255
        vec![255],
        // 255
        vec![255],
        // 255
        vec![255],
        // 255
        vec![255],
        // 255
        vec![255],
        // 255
        vec![255],
        // 255
        vec![255],
        // 255
        vec![255],
        // 255
        vec![255],
        // 255
        vec![255],
        // 255
        vec![255],
        // 255
        vec![255],
        // 255
        vec![255],
        // 255
        vec![255],
        // 255
        vec![255],
        // 255
        vec![255],
        // 255
        vec![255],
    ];
    kani::concrete_playback_run(concrete_vals, probe_failing_for_playback);
}
