use super::*;

fn any_addr() -> Multiaddr {
    // address content is never inspected by the transitions (only cloned / logged)
    Multiaddr::empty()
}
fn any_record() -> ConnectionRecord {
    ConnectionRecord { address: any_addr(), connection_id: ConnectionId::from(kani::any::<usize>()) }
}
fn any_transports() -> HashSet<SupportedTransport> {
    let mut s = HashSet::new();
    s
}
fn any_state() -> PeerState {
    match kani::any::<u8>() % 7 {
        0 => PeerState::Connected { record: any_record(), secondary: None },
        1 => PeerState::Connected { record: any_record(), secondary: Some(SecondaryOrDialing::Secondary(any_record())) },
        2 => PeerState::Connected { record: any_record(), secondary: Some(SecondaryOrDialing::Dialing(any_record())) },
        3 => PeerState::Opening { addresses: HashSet::new(), connection_id: ConnectionId::from(kani::any::<usize>()), transports: any_transports() },
        4 => PeerState::Dialing { dial_record: any_record() },
        5 => PeerState::Disconnected { dial_record: None },
        _ => PeerState::Disconnected { dial_record: Some(any_record()) },
    }
}
fn established(s: &PeerState) -> usize {
    match s {
        PeerState::Connected { secondary: Some(SecondaryOrDialing::Secondary(_)), .. } => 2,
        PeerState::Connected { .. } => 1,
        _ => 0,
    }
}

#[kani::proof]
#[kani::unwind(4)]
fn probe_peer_state_established() {
    let mut s = any_state();
    let before = established(&s);
    let accepted = s.on_connection_established(any_record());
    let after = established(&s);
    assert!(after <= 2);
    if accepted { assert!(after == before + 1 || (before == 0 && after == 1)); } else { assert!(after == before); }
}

#[kani::proof]
fn probe_ps_a() {
    let s = PeerState::Disconnected { dial_record: None };
    assert!(s.can_dial() == StateDialResult::Ok);
}
#[kani::proof]
#[kani::unwind(4)]
fn probe_ps_b() {
    let mut s = PeerState::Dialing { dial_record: any_record() };
    let r = s.on_dial_failure(ConnectionId::from(kani::any::<usize>()));
    assert!(r || matches!(s, PeerState::Dialing { .. }));
}
#[kani::proof]
#[kani::unwind(4)]
fn probe_ps_c() {
    let mut s = PeerState::Disconnected { dial_record: None };
    let r = s.on_connection_established(any_record());
    assert!(r);
}
#[kani::proof]
fn probe_ps_d() {
    let hs: HashSet<SupportedTransport> = HashSet::new();
    assert!(hs.is_empty());
}
