use super::*;
pub(crate) fn fab_key(peer: PeerId, bytes: [u8; 32]) -> Key<PeerId> {
    Key { preimage: peer, bytes: KeyBytes(Array::from(bytes)) }
}
pub(crate) fn key_bytes(k: &Key<PeerId>) -> [u8; 32] {
    let mut out = [0u8; 32]; out.copy_from_slice(k.bytes.0.as_slice()); out
}
