use vstd::prelude::*;
verus! {

#[verifier::external_body]
#[derive(Copy, Clone, PartialEq, Eq, Hash, Debug)]
struct PeerId { _p: [u8; 66] }

#[derive(Debug, Copy, Clone, PartialEq, Eq)]
enum ConnectionType { NotConnected, Connected, CanConnect, CannotConnect }

#[verifier::external_body]
struct AddressStore { _p: usize }

#[verifier::external_body]
#[verifier::reject_recursive_types(T)]
struct Key<T: Clone> { preimage: T, _b: [u8; 32] }

impl<T: Clone> Key<T> {
    uninterp spec fn bytes(&self) -> Seq<u8>;
}

#[verifier::external_body]
fn key_eq<T: Clone, U: Clone>(a: &Key<T>, b: &Key<U>) -> (r: bool)
    ensures r == (a.bytes() == b.bytes())
{ unimplemented!() }

struct KademliaPeer {
    key: Key<PeerId>,
    peer: PeerId,
    address_store: AddressStore,
    connection: ConnectionType,
}

#[verifier::external_body]
fn fresh_placeholder_peer() -> (r: KademliaPeer)
    ensures r.connection == ConnectionType::NotConnected
{ unimplemented!() }

enum KBucketEntry<'a> {
    LocalNode,
    Occupied(&'a mut KademliaPeer),
    Vacant(&'a mut KademliaPeer),
    NoSlot,
}

struct KBucket {
    nodes: Vec<KademliaPeer>,
}

impl KBucket {
    fn entry<K: Clone>(&mut self, key: Key<K>) -> (r: KBucketEntry<'_>)
        requires old(self).nodes.len() <= 20,
        ensures final(self).nodes.len() <= 20,
    {
        let ghost n0 = self.nodes.len();
        for i in it: 0..self.nodes.len()
            invariant it.iter.end == n0, self.nodes.len() == n0, n0 <= 20,
        {
            if key_eq(&self.nodes[i].key, &key) {
                return KBucketEntry::Occupied(&mut self.nodes[i]);
            }
        }

        if self.nodes.len() < 20 {
            self.nodes.push(fresh_placeholder_peer());
            let len = self.nodes.len() - 1;
            return KBucketEntry::Vacant(&mut self.nodes[len]);
        }

        let ghost n1 = self.nodes.len();
        for i in it: 0..self.nodes.len()
            invariant it.iter.end == n1, self.nodes.len() == n1, n1 <= 20,
        {
            match self.nodes[i].connection {
                ConnectionType::NotConnected | ConnectionType::CannotConnect => {
                    return KBucketEntry::Vacant(&mut self.nodes[i]);
                }
                _ => {}
            }
        }

        KBucketEntry::NoSlot
    }
}
}
fn main() {}
