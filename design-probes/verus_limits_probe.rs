use vstd::prelude::*;
use std::collections::HashSet;
use vstd::std_specs::hash::*;

verus! {

#[derive(Debug, Copy, Clone, Hash, PartialEq, Eq)]
struct ConnectionId(usize);

broadcast proof fn axiom_connection_id_key_model()
    ensures #[trigger] obeys_key_model::<ConnectionId>(),
{ admit(); }

#[derive(Debug, Clone, Default)]
struct ConnectionLimitsConfig {
    /// Maximum number of incoming connections that can be established.
    max_incoming_connections: Option<usize>,
    /// Maximum number of outgoing connections that can be established.
    max_outgoing_connections: Option<usize>,
}

#[derive(Debug, Clone, Copy, PartialEq, Eq)]
enum ConnectionLimitsError {
    MaxIncomingConnectionsExceeded,
    MaxOutgoingConnectionsExceeded,
}

#[derive(Debug, Clone)]
struct ConnectionLimits {
    config: ConnectionLimitsConfig,
    incoming_connections: HashSet<ConnectionId>,
    outgoing_connections: HashSet<ConnectionId>,
}

impl ConnectionLimits {
    spec fn wf(&self) -> bool {
        &&& (self.config.max_incoming_connections matches Some(m) ==> self.incoming_connections@.len() <= m)
        &&& (self.config.max_outgoing_connections matches Some(m) ==> self.outgoing_connections@.len() <= m)
    }

    fn new(config: ConnectionLimitsConfig) -> (r: Self)
        ensures r.wf(), r.incoming_connections@ == Set::<ConnectionId>::empty(),
    {
        let max_incoming_connections = config.max_incoming_connections.unwrap_or(0);
        let max_outgoing_connections = config.max_outgoing_connections.unwrap_or(0);

        Self {
            config,
            incoming_connections: HashSet::with_capacity(max_incoming_connections),
            outgoing_connections: HashSet::with_capacity(max_outgoing_connections),
        }
    }

    fn can_accept_connection(
        &mut self,
        is_listener: bool,
    ) -> (r: Result<(), ConnectionLimitsError>)
        requires old(self).wf(),
        ensures *final(self) == *old(self),
           r.is_ok() && is_listener ==> (final(self).config.max_incoming_connections matches Some(m) ==> final(self).incoming_connections@.len() < m),
    {
        broadcast use axiom_connection_id_key_model;
        broadcast use vstd::std_specs::hash::group_hash_axioms;
        // Check connection limits.
        if is_listener {
            if let Some(max_incoming_connections) = self.config.max_incoming_connections {
                if self.incoming_connections.len() >= max_incoming_connections {
                    return Err(ConnectionLimitsError::MaxIncomingConnectionsExceeded);
                }
            }
        } else if let Some(max_outgoing_connections) = self.config.max_outgoing_connections {
            if self.outgoing_connections.len() >= max_outgoing_connections {
                return Err(ConnectionLimitsError::MaxOutgoingConnectionsExceeded);
            }
        }

        Ok(())
    }

    fn accept_established_connection(
        &mut self,
        connection_id: ConnectionId,
        is_listener: bool,
    )
        requires old(self).wf(),
           is_listener ==> (old(self).config.max_incoming_connections matches Some(m) ==> old(self).incoming_connections@.len() < m),
           !is_listener ==> (old(self).config.max_outgoing_connections matches Some(m) ==> old(self).outgoing_connections@.len() < m),
        ensures final(self).wf(),
    {
        broadcast use axiom_connection_id_key_model;
        if is_listener {
            if self.config.max_incoming_connections.is_some() {
                self.incoming_connections.insert(connection_id);
            }
        } else if self.config.max_outgoing_connections.is_some() {
            self.outgoing_connections.insert(connection_id);
        }
    }

    fn on_connection_closed(&mut self, connection_id: ConnectionId)
        requires old(self).wf(),
        ensures final(self).wf(),
          final(self).incoming_connections@ == old(self).incoming_connections@.remove(connection_id),
    {
        broadcast use axiom_connection_id_key_model;
        self.incoming_connections.remove(&connection_id);
        self.outgoing_connections.remove(&connection_id);
    }
}

} // verus!
fn main() {}
