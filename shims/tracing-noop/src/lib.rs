//! No-op stand-in for the `tracing` crate, used ONLY in the scratch copy that Kani compiles.
//! Any reachable `tracing::…!` invocation makes kani-compiler 0.68 panic (intrinsics.rs:243);
//! the five macros litep2p uses expand to `()` here, so their arguments are not evaluated
//! (they are Debug/Display formatting of values only).  Same drop as rule 1 of the Verus route.
#[macro_export]
macro_rules! trace { ($($t:tt)*) => { () }; }
#[macro_export]
macro_rules! debug { ($($t:tt)*) => { () }; }
#[macro_export]
macro_rules! info { ($($t:tt)*) => { () }; }
#[macro_export]
macro_rules! warn { ($($t:tt)*) => { () }; }
#[macro_export]
macro_rules! error { ($($t:tt)*) => { () }; }
