"""Assemble a single-file Verus unit from a template (`units/<unit>.vrs`) and the *current*
text of /repo, run Verus on it and classify the outcome.

Template = ordinary Verus text (prelude, spec fns, lemmas, witnesses) plus directives:

  //@ item <file> :: <step> [:: <step>]            copy one item verbatim (rules 1-3)
  //@ fn <file> :: <step> [:: <step>]              copy one fn and splice its contract
  //@   ret <name>                                  name the return value:  -> T   becomes  -> (name: T)
  //@   tailcontinue                                extraction rule 6
  //@   <free lines>                                contract clauses (requires/ensures/decreases ...)
  //@   loop <ordinal> [it=<name>]                  following free lines are that loop's invariants
  //@   body_prefix                                 following free lines are ghost/proof statements placed
  //@                                               at the very start of the body (proof-only text)
  //@ end
  //@ expect <fn-name-suffix>                       additional expected obligation (lemma, witness)
  //@ expect_fail <fn-name-suffix>                  canary: must FAIL

Rules applied to extracted text (recorded in evidence as coverage.extraction.drops):
  1 tracing::{trace,debug,info,warn,error}!(..) statements deleted (expression position -> `()`)
  2 visibility qualifiers removed
  3 #[cfg(feature = X)]-guarded elements removed for features off in the default build
  4 contract clauses spliced between signature and body, loop invariants before the loop body,
    return value named
  5 wrapped in verus!{}
  6 (opt-in, checked) tail-position `continue` in a `for` body -> `{}`
  7 (opt-in) `for P in E` -> `for P in it: E` (names the iterator so an invariant can mention it)
  8 (per item, `| noattrs attrs=..`) the attribute list of an item is replaced (derive lists naming traits of opaque types)
  9 (opt-in, `assoc X`) `Self::X` in a fn taken from a trait impl -> the impl's `type X = T` right-hand side
 11 (opt-in, `name_wildcard_closure_params`) closure parameter `|_|` -> `|_w|`
 10 (opt-in, `unpin_receiver`) `self: Pin<&mut Self>` -> `&mut self`; `let this = Pin::into_inner(self);` deleted and the
    alias `this` renamed to `self`; 10b: `mut self: Pin<&mut Self>` used through DerefMut -> `&mut self`;
    10c: `path::m(self.as_mut(), args)` -> `self.m(args)`
 12 (opt-in, `closure N params=".." ret=".."`) the N-th closure of the body gets typed parameters, a named return value and
    a contract (`|p| e` -> `|p: &T| -> (o: R) ensures .. { e }`); the closure body is untouched
 10d (opt-in, `unproject`) pin_project plumbing: `let this = self.project();` deleted, `*this.f`/`this.f` -> `self.f`,
    `this.f.as_mut()` -> `Pin::new(&mut self.f)`, `self.as_mut().project().f` -> `self.f`, `self.as_mut().m(` -> `self.m(`
 14 (opt-in, `unguard`) `match e { P if g => a, _ => b }` -> `match e { P => if g { a } else { b }, _ => b }`
 15 (opt-in, `sink_exit N flag=F`) in the N-th loop, the one statement `S;` that directly precedes a `break;` is moved
    behind the loop: `let mut F = false; loop { .. F = true; break; .. } if F { S; }` (same program: nothing runs between
    the `break` and the end of the loop).  Needed where S assigns a place whose pattern-borrowed fields are live loop
    variables: Verus forgets the place at the loop head and its borrow checker rejects any invariant naming it.
 16 (opt-in, `opaque_async_blocks`) every `async [move] { .. }` BLOCK expression in the body is replaced by a call of the
    prelude's `opaque_async_block()` (Verus has no generator types): the future built there is a value the function only
    stores; what it does when polled is NOT verified and is listed as dropped text
 17 (opt-in, `for_each_to_for it=NAME`) the statement `E.into_iter().for_each(|P| B);` becomes `for P in NAME: E B`
    (`E.iter().for_each(..)` likewise, with `E.iter()` as the iterated expression)
    (`Iterator::for_each` IS that loop; Verus has no closures that capture `&mut`)
 10e (opt-in, `pin_alias NAME=self.F`) pin_project plumbing of a wrapper around a pinned field: `let mut NAME = self.project().F;`
    deleted and NAME written out as `self.F`; `path::m(self.F.as_mut(), args)` -> `self.F.m(args)`;
    `self.F.project().G.m(` -> `Pin::new(&mut self.F.G).m(`
 18 (opt-in, `async_block_body N`) the function is emitted with the BODY OF ITS N-th `async [move] { .. }` BLOCK as its body
    (same parameters; the function's own text around the block is dropped and listed): what is verified is the value that
    block evaluates to — an `async move` block runs its body over the captured parameters, `?` leaves the block
 13 (opt-in, `emit_as X`) the function is emitted under the identifier X (same text verified against another part of its contract)
"""
import hashlib
import json
import os
import re
import subprocess
import time

from . import rslex
from .rslex import ExtractError

OFF_FEATURES = {"quic", "webrtc", "websocket", "rsa", "fuzz"}


class Unit:
    def __init__(self, name):
        self.name = name
        self.text = ""
        self.fns = []          # dicts: name, file, path, src_lines, sha256, gen_lines
        self.items = []
        self.expect = []       # suffixes that must verify
        self.expect_fail = []  # suffixes that must fail
        self.drops = {"tracing_invocations_dropped": 0, "visibility_qualifiers_stripped": 0,
                      "cfg_feature_elements_removed": 0, "tail_continue_rewritten": 0,
                      "for_iterators_named": 0, "return_values_named": 0}
        self.linemap = []      # (first_line, last_line, fn_name)


def _line_of(src, pos):
    return src.count("\n", 0, pos) + 1


def _extract_text(src, toks, s_idx, e_idx):
    return src[toks[s_idx].s:toks[e_idx].e], toks[s_idx].s


def _common_edits(item_text, unit, keepvis=False):
    toks = rslex.lex(item_text)
    e1, n = rslex.tracing_edits(toks)
    unit.drops["tracing_invocations_dropped"] += n
    e2 = [] if keepvis else rslex.vis_edits(toks)
    unit.drops["visibility_qualifiers_stripped"] += len(e2)
    e3 = rslex.cfg_feature_edits(toks, OFF_FEATURES, item_text)
    unit.drops["cfg_feature_elements_removed"] += len(e3)
    # cfg edits may swallow others: drop edits fully contained in a cfg edit
    keep = []
    for ed in e1 + e2:
        if any(c[0] <= ed[0] and ed[1] <= c[1] for c in e3):
            continue
        keep.append(ed)
    return keep + e3


def _tail_continue_edits(toks, loops):
    """rule 6.  `continue` is in tail position of a `for` body when it is (a) a match-arm body
    `=> continue ,|}` of a match whose closing brace is the last token before the loop body's
    closing brace, or (b) the last statement of the for body itself."""
    edits = []
    for i, t in enumerate(toks):
        if t.k == "id" and t.t == "continue":
            # innermost enclosing loop
            encl = None
            for (kw, bo) in loops:
                bc = rslex.match_close(toks, bo)
                if bo < i < bc and (encl is None or bo > encl[1]):
                    encl = (kw, bo, bc)
            if encl is None or toks[encl[0]].t != "for":
                raise ExtractError("rule 6: `continue` outside a for loop")
            kw, bo, bc = encl
            ok = False
            if toks[i - 1].t == "=>" and toks[i + 1].t in (",", "}"):
                # enclosing match block
                d = 0
                j = i
                while j > bo:
                    if toks[j].t == "}":
                        d += 1
                    elif toks[j].t == "{":
                        if d == 0:
                            break
                        d -= 1
                    j -= 1
                mc = rslex.match_close(toks, j)
                k = mc + 1
                if toks[k].t == ";":
                    k += 1
                ok = (k == bc)
            elif toks[i + 1].t in (";", "}"):
                k = i + 1
                if toks[k].t == ";":
                    k += 1
                ok = (k == bc)
            if not ok:
                raise ExtractError("rule 6: `continue` is not in tail position; giving up (undecided)")
            edits.append((t.s, t.e, "{}"))
    return edits


def build(template_path, repo, out_path, drop_tags=()):
    name = os.path.splitext(os.path.basename(template_path))[0]
    unit = Unit(name)
    lines = open(template_path).read().split("\n")
    out = []
    cache = {}

    def src_of(rel):
        if rel not in cache:
            p = os.path.join(repo, rel)
            if not os.path.exists(p):
                raise ExtractError(f"anchor lost: file {rel} missing")
            cache[rel] = open(p).read()
        return cache[rel]

    def emit(text, fn_name=None):
        first = len(out) + 1
        out.extend(text.split("\n"))
        if fn_name:
            unit.linemap.append((first, len(out), fn_name))

    i = 0
    while i < len(lines):
        ln = lines[i]
        s = ln.strip()
        if s.startswith("//@ item "):
            spec = s[len("//@ item "):]
            opts = ""
            if " | " in spec:
                spec, opts = spec.split(" | ", 1)
            parts = [p.strip() for p in spec.split("::")]
            # re-join path pieces that were split inside generic args / paths: steps are separated by " :: "
            parts = [p.strip() for p in spec.split(" :: ")]
            rel, path = parts[0], parts[1:]
            src = src_of(rel)
            toks, st, kw, bo, en = rslex.locate(src, path)
            if "noattrs" in opts:
                st2 = kw
                # keep qualifiers (they are stripped anyway)
                text, base = _extract_text(src, toks, st2, en)
            else:
                text, base = _extract_text(src, toks, st, en)
            edits = _common_edits(text, unit, keepvis=("keepvis" in opts))
            text2 = rslex.apply_edits(text, edits)
            if "nopin" in opts:
                # pin_project's field marker `#[pin]` (inert without the derive) is removed
                text2, npin = re.subn(r"#\[pin\]\s*", "", text2)
                unit.drops["pin_field_markers_removed"] = unit.drops.get("pin_field_markers_removed", 0) + npin
            m = re.search(r"attrs=(.*)$", opts)
            if m:
                text2 = m.group(1) + "\n" + text2
            unit.items.append({"file": rel, "path": " :: ".join(path),
                               "lines": [_line_of(src, toks[st].s), _line_of(src, toks[en].e)],
                               "sha256": hashlib.sha256(text.encode()).hexdigest()})
            emit(text2)
            i += 1
            continue
        if s.startswith("//@ fn "):
            spec = s[len("//@ fn "):]
            parts = [p.strip() for p in spec.split(" :: ")]
            rel, path = parts[0], parts[1:]
            ret = None
            assoc = None
            unpin = False
            wild = False
            tailc = False
            contract = []
            loopspec = {}
            body_prefix = []
            oname = None
            unproject = False
            unguard = False
            emit_as = None
            opaque_async = False
            async_body = None
            pin_alias = None
            foreach_it = None
            sink = None
            closurespec = {}
            cur = contract
            i += 1
            while i < len(lines) and lines[i].strip() != "//@ end":
                l2 = lines[i]
                s2 = l2.strip()
                if s2.startswith("//@"):
                    d = s2[3:].strip()
                    if d.startswith("ret "):
                        ret = d[4:].strip()
                    elif d == "tailcontinue":
                        tailc = True
                    elif d.startswith("assoc "):
                        assoc = d[6:].strip()
                    elif d == "unpin_receiver":
                        unpin = True
                    elif d == "unproject":
                        unproject = True
                    elif d == "unguard":
                        unguard = True
                    elif d == "name_wildcard_closure_params":
                        wild = True
                    elif d.startswith("name "):
                        oname = d[5:].strip()
                    elif d.startswith("emit_as "):
                        emit_as = d[8:].strip()
                    elif d.startswith("async_block_body "):
                        async_body = int(d.split()[1])
                    elif d.startswith("pin_alias "):
                        mm = re.match(r'pin_alias (\w+)=self\.(\w+)$', d)
                        if not mm:
                            raise ExtractError(f"template {name}: malformed pin_alias directive `{s2}`")
                        pin_alias = (mm.group(1), mm.group(2))
                    elif d.startswith("for_each_to_for it="):
                        foreach_it = d.split("it=", 1)[1].strip()
                    elif d == "opaque_async_blocks":
                        opaque_async = True
                    elif d.startswith("sink_exit "):
                        mm = re.match(r'sink_exit (\d+) flag=(\w+)$', d)
                        if not mm:
                            raise ExtractError(f"template {name}: malformed sink_exit directive `{s2}`")
                        sink = (int(mm.group(1)), mm.group(2))
                    elif d.startswith("loop "):
                        f = d.split()
                        n = int(f[1])
                        itn = None
                        for x in f[2:]:
                            if x.startswith("it="):
                                itn = x[3:]
                        loopspec[n] = {"it": itn, "lines": []}
                        cur = loopspec[n]["lines"]
                    elif d.startswith("closure "):
                        # rule 12: //@ closure N params="p: &T" ret="o: R"   followed by requires/ensures lines
                        mm = re.match(r'closure (\d+) params="([^"]*)" ret="([^"]*)"$', d)
                        if not mm:
                            raise ExtractError(f"template {name}: malformed closure directive `{s2}`")
                        closurespec[int(mm.group(1))] = {"params": mm.group(2), "ret": mm.group(3), "lines": []}
                        cur = closurespec[int(mm.group(1))]["lines"]
                    elif d == "body_prefix":
                        cur = body_prefix
                    elif d == "contract":
                        cur = contract
                    else:
                        raise ExtractError(f"template {name}: unknown directive `{s2}`")
                else:
                    if not any(tg in l2 for tg in drop_tags):
                        cur.append(l2)
                i += 1
            i += 1  # skip //@ end
            src = src_of(rel)
            toks, st, kw, bo, en = rslex.locate(src, path)
            if bo is None:
                raise ExtractError(f"`{path[-1]}` has no body")
            # skip leading attributes of the fn (e.g. #[inline]) but keep them textually: start at st
            text, base = _extract_text(src, toks, st, en)
            ltoks = rslex.lex(text)
            # indices in local token list
            kwl = next(k for k, t in enumerate(ltoks) if t.k == "id" and t.t == "fn")
            # body open: first `{` at depth 0 after params
            po = kwl + 2
            # reuse fn_parts: need body_open index in ltoks
            # find body open as the token whose absolute position equals toks[bo].s - base
            bol = next(k for k, t in enumerate(ltoks) if t.s == toks[bo].s - base)
            p_open, p_close, arrow, ret_end, _ = rslex.fn_parts(ltoks, kwl, bol)
            edits = _common_edits(text, unit)
            ctext = "\n".join(contract)
            if assoc:
                # rule 9: the fn comes from a trait impl; `Self::<assoc>` is replaced by the right-hand side of the
                # impl's own `type <assoc> = T;` (looked up in the enclosing impl block of the real source)
                _, ist, ikw, ibo, ien = rslex.locate(src, path[:-1])
                rhs = None
                k = ibo + 1
                while k < ien:
                    if toks[k].t == "type" and toks[k + 1].t == assoc and toks[k + 2].t == "=":
                        e2 = k + 3
                        while toks[e2].t != ";":
                            e2 += 1
                        rhs = src[toks[k + 3].s:toks[e2 - 1].e]
                        break
                    if toks[k].t == "{":
                        k = rslex.match_close(toks, k)
                    k += 1
                if rhs is None:
                    raise ExtractError(f"rule 9: enclosing impl has no `type {assoc} = ..;`")
                for k2 in range(len(ltoks) - 2):
                    if ltoks[k2].t == "Self" and ltoks[k2 + 1].t == "::" and ltoks[k2 + 2].t == assoc:
                        edits.append((ltoks[k2].s, ltoks[k2 + 2].e, rhs))
                        unit.drops["assoc_types_substituted"] = unit.drops.get("assoc_types_substituted", 0) + 1
            if wild:
                # rule 11: a closure whose only parameter is the wildcard pattern, `|_| e`, becomes `|_w| e`
                # (Verus accepts only variable patterns as closure parameters); the parameter is unused either way.
                nw = 0
                for k in range(len(ltoks) - 2):
                    if ltoks[k].t == "|" and ltoks[k + 1].t == "_" and ltoks[k + 2].t == "|":
                        edits.append((ltoks[k + 1].s, ltoks[k + 1].e, "_w"))
                        nw += 1
                unit.drops["wildcard_closure_params_named"] = unit.drops.get("wildcard_closure_params_named", 0) + nw
            if unpin:
                # rule 10: receiver `self: Pin<&mut Self>` -> `&mut self`; the alias statement
                # `let this = Pin::into_inner(self);` is deleted and every identifier token `this` becomes `self`.
                # Same program for `Self: Unpin` (Pin<&mut T> is then a plain wrapper around &mut T and `this` is just
                # another name for `self`).  Needed because Verus has no old()/final() for a pinned receiver and loses
                # the link between `self` and a reborrow of it across a loop.  Both patterns must occur exactly once.
                want1 = ["self", ":", "Pin", "<", "&", "mut", "Self", ">"]
                want2 = ["let", "this", "=", "Pin", "::", "into_inner", "(", "self", ")", ";"]
                h1 = [k for k in range(len(ltoks) - len(want1) + 1) if [t.t for t in ltoks[k:k + len(want1)]] == want1]
                h2 = [k for k in range(len(ltoks) - len(want2) + 1) if [t.t for t in ltoks[k:k + len(want2)]] == want2]
                # variant 10b: `mut self: Pin<&mut Self>` used directly through DerefMut (no alias statement)
                direct = len(h1) == 1 and len(h2) == 0 and h1[0] > 0 and ltoks[h1[0] - 1].t == "mut"
                if not direct and (len(h1) != 1 or len(h2) != 1):
                    raise ExtractError("rule 10: expected exactly one `self: Pin<&mut Self>` and one `let this = Pin::into_inner(self);`")
                removed = [(e0, e1) for (e0, e1, _) in edits]
                if direct:
                    edits.append((ltoks[h1[0] - 1].s, ltoks[h1[0] + len(want1) - 1].e, "&mut self"))
                    h2 = [len(ltoks) + 10]
                else:
                    edits.append((ltoks[h1[0]].s, ltoks[h1[0] + len(want1) - 1].e, "&mut self"))
                    edits.append((ltoks[h2[0]].s, ltoks[h2[0] + len(want2) - 1].e, ""))
                if direct:
                    # variant 10c: a call through the pinned receiver in path form, `a::b::m(self.as_mut(), args)`
                    # (re-pinning `self` for another method of the same impl), becomes the method call
                    # `self.m(args)` on the unpinned receiver
                    want3 = ["(", "self", ".", "as_mut", "(", ")"]
                    n10c = 0
                    for k in range(len(ltoks) - len(want3)):
                        if [t.t for t in ltoks[k:k + len(want3)]] != want3:
                            continue
                        # walk back over `id (:: id)*`
                        j = k - 1
                        if j < 0 or ltoks[j].k != "id":
                            raise ExtractError("rule 10c: `self.as_mut()` not as first argument of a path call")
                        meth = ltoks[j].t
                        while j >= 2 and ltoks[j - 1].t == "::" and ltoks[j - 2].k == "id":
                            j -= 2
                        after = ltoks[k + len(want3)]
                        if after.t == ",":
                            edits.append((ltoks[j].s, after.e, f"self.{meth}("))
                        elif after.t == ")":
                            edits.append((ltoks[j].s, ltoks[k + len(want3) - 1].e, f"self.{meth}("))
                        else:
                            raise ExtractError("rule 10c: unexpected token after `self.as_mut()`")
                        n10c += 1
                    if n10c:
                        unit.drops["repinned_path_calls_made_method_calls"] = \
                            unit.drops.get("repinned_path_calls_made_method_calls", 0) + n10c
                nren = 0
                for k, t in enumerate(ltoks):
                    if direct:
                        break
                    if t.k == "id" and t.t == "this" and not (h2[0] <= k < h2[0] + len(want2)):
                        if any(e0 <= t.s and t.e <= e1 for (e0, e1) in removed):
                            continue      # inside a dropped tracing invocation
                        if k > 0 and ltoks[k - 1].t == "let":
                            raise ExtractError("rule 10: `this` is re-bound")
                        edits.append((t.s, t.e, "self"))
                        nren += 1
                unit.drops["pinned_receivers_unwrapped"] = unit.drops.get("pinned_receivers_unwrapped", 0) + 1
                unit.drops["alias_this_renamed_to_self"] = unit.drops.get("alias_this_renamed_to_self", 0) + nren
            if unproject:
                # rule 10d (pin_project plumbing, `Self: Unpin` view): receiver `[mut] self: Pin<&mut Self>` -> `&mut self`;
                # `let [mut] this = self.project();` deleted; `*this.f` and `this.f.m(..)` -> `self.f`; `this.f` as a value -> `(&mut self.f)`;
                # `this.f.as_mut()` (a #[pin] field re-pinned) -> `Pin::new(&mut self.f)`;
                # `self.as_mut().project().f` -> `self.f`; `self.as_mut().m(` -> `self.m(`
                T = [t.t for t in ltoks]
                n = len(ltoks)
                want1 = ["self", ":", "Pin", "<", "&", "mut", "Self", ">"]
                h1 = [k for k in range(n - len(want1) + 1) if T[k:k + len(want1)] == want1]
                if len(h1) != 1:
                    raise ExtractError("rule 10d: expected exactly one `self: Pin<&mut Self>`")
                k0 = h1[0] - 1 if h1[0] > 0 and T[h1[0] - 1] == "mut" else h1[0]
                edits.append((ltoks[k0].s, ltoks[h1[0] + len(want1) - 1].e, "&mut self"))
                nre = 0
                k = 0
                gone = [(e0, e1) for (e0, e1, _r) in edits if e1 > e0]
                while k < n:
                    if any(e0 <= ltoks[k].s and ltoks[k].e <= e1 for (e0, e1) in gone):
                        k += 1
                        continue
                    # let [mut] this = self.project();
                    if T[k] == "let":
                        j = k + 1
                        if T[j] == "mut":
                            j += 1
                        if T[j:j + 8] == ["this", "=", "self", ".", "project", "(", ")", ";"]:
                            edits.append((ltoks[k].s, ltoks[j + 7].e, ""))
                            k = j + 8
                            nre += 1
                            continue
                    # self.as_mut().project().f  /  self.as_mut().m(
                    if T[k:k + 6] == ["self", ".", "as_mut", "(", ")", "."]:
                        if T[k + 6:k + 10] == ["project", "(", ")", "."]:
                            edits.append((ltoks[k].s, ltoks[k + 9].e, "self."))
                            k += 10
                        else:
                            edits.append((ltoks[k].s, ltoks[k + 5].e, "self."))
                            k += 6
                        nre += 1
                        continue
                    if T[k] == "this" and ltoks[k].k == "id" and k + 2 < n and T[k + 1] == ".":
                        star = k > 0 and T[k - 1] == "*"
                        if T[k + 3:k + 7] == [".", "as_mut", "(", ")"]:
                            a0 = ltoks[k - 1].s if star else ltoks[k].s
                            edits.append((a0, ltoks[k + 6].e, f"Pin::new(&mut self.{T[k + 2]})"))
                            k += 7
                        elif star or (k + 3 < n and T[k + 3] == "."):
                            # `*this.f` (the place) or `this.f.m(..)` (auto-ref'd method call): the field itself
                            a0 = ltoks[k - 1].s if star else ltoks[k].s
                            edits.append((a0, ltoks[k].e, "self"))
                            k += 1
                        else:
                            # `this.f` used as a value: it is the projected `&mut` to the field
                            edits.append((ltoks[k].s, ltoks[k + 2].e, f"(&mut self.{T[k + 2]})"))
                            k += 3
                        nre += 1
                        continue
                    k += 1
                unit.drops["pin_projections_unwrapped"] = unit.drops.get("pin_projections_unwrapped", 0) + nre
            if unguard:
                # rule 14: `match e { P if g => a, _ => b }` -> `match e { P => if g { a } else { b }, _ => b }` for a match
                # whose ONLY other arm is the wildcard (same program: a failed guard falls through to `_`).  Needed because
                # Verus loses the connection between `self` and `final(self)` at a `return` in the arm after a guarded arm
                # (reproduced on a 6-line example).
                T = [t.t for t in ltoks]
                n14 = 0
                for k in range(len(ltoks)):
                    if T[k] != "match" or ltoks[k].k != "id":
                        continue
                    # body open: first `{` at paren depth 0
                    j = k + 1
                    d = 0
                    while j < len(ltoks) and not (d == 0 and T[j] == "{"):
                        if T[j] in ("(", "["):
                            d += 1
                        elif T[j] in (")", "]"):
                            d -= 1
                        j += 1
                    if j >= len(ltoks):
                        continue
                    close = rslex.match_close(ltoks, j)
                    # split arms at depth 0
                    arms = []
                    a0 = j + 1
                    d = 0
                    x = j + 1
                    m_arrow = None
                    m_guard = None
                    while x < close:
                        t = T[x]
                        if t in ("(", "[", "{"):
                            if t == "{" and d == 0 and m_arrow is not None and x == m_arrow + 1:
                                # block-bodied arm: ends at its closing brace (optional comma)
                                e = rslex.match_close(ltoks, x)
                                arms.append((a0, m_guard, m_arrow, e))
                                x = e + 1
                                if x < close and T[x] == ",":
                                    x += 1
                                a0 = x
                                m_arrow = None
                                m_guard = None
                                continue
                            d += 1
                        elif t in (")", "]", "}"):
                            d -= 1
                        elif d == 0 and t == "=>" and m_arrow is None:
                            m_arrow = x
                        elif d == 0 and t == "if" and m_arrow is None and m_guard is None:
                            m_guard = x
                        elif d == 0 and t == "," and m_arrow is not None:
                            arms.append((a0, m_guard, m_arrow, x - 1))
                            a0 = x + 1
                            m_arrow = None
                            m_guard = None
                        x += 1
                    if m_arrow is not None and a0 < close:
                        arms.append((a0, m_guard, m_arrow, close - 1))
                    if len(arms) == 2 and arms[0][1] is not None and arms[1][1] is None \
                            and arms[1][2] == arms[1][0] + 1 and T[arms[1][0]] == "_":
                        (s0, g, ar, e0), (s1, _g, ar1, e1) = arms
                        cond = text[ltoks[g + 1].s:ltoks[ar - 1].e]
                        body0 = text[ltoks[ar + 1].s:ltoks[e0].e]
                        body1 = text[ltoks[ar1 + 1].s:ltoks[e1].e]
                        edits.append((ltoks[g].s, ltoks[e0].e, f"=> if {cond} {{ {body0} }} else {{ {body1} }}"))
                        n14 += 1
                if n14 == 0:
                    raise ExtractError("rule 14: no `match` of the shape `P if g => a, _ => b`")
                unit.drops["guarded_arms_rewritten"] = unit.drops.get("guarded_arms_rewritten", 0) + n14
            if emit_as:
                # rule 13: the function is emitted under another identifier, so that the same body can be verified a
                # second time against another part of its contract (keeps each solver query small)
                edits.append((ltoks[kwl + 1].s, ltoks[kwl + 1].e, emit_as))
                unit.drops["functions_emitted_under_second_name"] = unit.drops.get("functions_emitted_under_second_name", 0) + 1
            if ret:
                if arrow is None:
                    # a fn without `->` returns the unit: spell that out (`-> (r: ())`).  Needed for `async fn`s — Verus
                    # applies an async callee's postcondition at `.await` only when the return value is named.
                    edits.append((ltoks[p_close].e, ltoks[p_close].e, f" -> ({ret}: ())"))
                else:
                    edits.append((ltoks[arrow + 1].s, ltoks[arrow + 1].s, f"({ret}: "))
                    edits.append((ltoks[ret_end - 1].e, ltoks[ret_end - 1].e, ")"))
                unit.drops["return_values_named"] += 1
            ins = "\n" + ctext + "\n" if ctext.strip() else ""
            edits.append((ltoks[bol].s, ltoks[bol].s, ins))
            if body_prefix:
                edits.append((ltoks[bol].e, ltoks[bol].e, "\n" + "\n".join(body_prefix) + "\n"))
            bcl = rslex.match_close(ltoks, bol)
            loops = rslex.loops_in(ltoks, bol + 1, bcl)
            loopspec_all = dict(loopspec)
            if foreach_it and 0 in loopspec:
                # (rule 17 splices these itself)
                loopspec = {k: v for k, v in loopspec.items() if k != 0}
            if loopspec and len(loops) == 0:
                # the function no longer contains ANY loop: its loop invariants have nothing to attach to and are not
                # needed; the function contract is still checked (a `while` turned into an `if` must fail on its
                # postcondition, not end as a lost anchor).  A function that still has loops, but fewer than the
                # contract names, remains a lost anchor: an invariant could then land on the wrong loop.
                unit.drops["loop_contracts_without_loop"] = unit.drops.get("loop_contracts_without_loop", 0) + len(loopspec)
                loopspec = {}
            for n, ls in loopspec.items():
                if n >= len(loops):
                    raise ExtractError(f"anchor lost: `{path[-1]}` has {len(loops)} loops, contract names loop {n}")
                kwi, lbo = loops[n]
                if ls["it"]:
                    if ltoks[kwi].t != "for":
                        raise ExtractError("rule 7 on a non-for loop")
                    # first `in` at depth 0 after for
                    d = 0
                    k = kwi + 1
                    while k < lbo:
                        if ltoks[k].t in ("(", "["):
                            d += 1
                        elif ltoks[k].t in (")", "]"):
                            d -= 1
                        elif d == 0 and ltoks[k].k == "id" and ltoks[k].t == "in":
                            break
                        k += 1
                    edits.append((ltoks[k].e, ltoks[k].e, f" {ls['it']}:"))
                    unit.drops["for_iterators_named"] += 1
                edits.append((ltoks[lbo].s, ltoks[lbo].s, "\n" + "\n".join(ls["lines"]) + "\n"))
            if foreach_it:
                # rule 17: `E.into_iter().for_each(|P| B);` -> `for P in it: E B`; the contract's `loop 0` invariants belong
                # to the loop this rule creates
                foreach_inv = loopspec_all[0]["lines"] if 0 in loopspec_all else []
                T = [t.t for t in ltoks]
                hits = []
                for k in range(bol + 1, bcl - 8):
                    if T[k] == "." and T[k + 1] in ("into_iter", "iter") and T[k + 2] == "(" and T[k + 3] == ")" and T[k + 4] == "." \
                            and T[k + 5] == "for_each" and T[k + 6] == "(" and T[k + 7] == "|":
                        hits.append(k)
                if len(hits) != 1:
                    raise ExtractError(f"rule 17: `{path[-1]}` has {len(hits)} statements of the shape `E.into_iter().for_each(|P| B);`")
                k = hits[0]
                # receiver expression E: back to the previous `;`, `{` or `}`
                j = k - 1
                d = 0
                while j > bol:
                    tj = T[j]
                    if tj in (")", "]"):
                        d += 1
                    elif tj in ("(", "["):
                        d -= 1
                    elif d == 0 and tj in (";", "{", "}"):
                        break
                    j -= 1
                e0 = j + 1
                # closure parameter pattern: between the two `|` at depth 0
                p0 = k + 8
                q = p0
                d = 0
                while not (d == 0 and T[q] == "|"):
                    if T[q] in ("(", "["):
                        d += 1
                    elif T[q] in (")", "]"):
                        d -= 1
                    q += 1
                if T[q + 1] != "{":
                    raise ExtractError("rule 17: closure body is not a block")
                bclose = rslex.match_close(ltoks, q + 1)
                if not (T[bclose + 1] == ")" and T[bclose + 2] == ";"):
                    raise ExtractError("rule 17: `for_each(..)` is not a statement")
                recv = text[ltoks[e0].s:ltoks[k - 1].e] + (".iter()" if T[k + 1] == "iter" else "")
                pat = text[ltoks[p0].s:ltoks[q - 1].e]
                edits.append((ltoks[e0].s, ltoks[q].e, f"for {pat} in {foreach_it}: {recv} \n" + "\n".join(foreach_inv) + "\n"))
                edits.append((ltoks[bclose + 1].s, ltoks[bclose + 2].e, ""))
                unit.drops["for_each_rewritten_as_for"] = unit.drops.get("for_each_rewritten_as_for", 0) + 1
            if async_body is not None:
                # rule 18: see the module docstring
                blocks = []
                k = bol + 1
                while k < bcl:
                    if ltoks[k].k == "id" and ltoks[k].t == "async":
                        j = k + 1
                        if ltoks[j].k == "id" and ltoks[j].t == "move":
                            j += 1
                        if ltoks[j].t == "{":
                            e = rslex.match_close(ltoks, j)
                            blocks.append((k, j, e))
                            k = e + 1
                            continue
                    k += 1
                if async_body >= len(blocks):
                    raise ExtractError(f"anchor lost: `{path[-1]}` has {len(blocks)} async blocks, contract names block {async_body}")
                k, j, e = blocks[async_body]
                cut = [(ltoks[bol].e, ltoks[j].e), (ltoks[e].s, ltoks[bcl].s)]
                edits = [x for x in edits if not any(c0 <= x[0] and x[1] <= c1 for (c0, c1) in cut)]
                # (a `body_prefix` of the contract goes in front of the block's body)
                edits.append((cut[0][0], cut[0][1], "\n" + "\n".join(body_prefix) + "\n"))
                edits.append((cut[1][0], cut[1][1], "\n"))
                unit.drops["async_block_body_emitted_as_function_body"] = unit.drops.get("async_block_body_emitted_as_function_body", 0) + 1
            if opaque_async:
                # rule 16: see the module docstring
                n16 = 0
                k = bol + 1
                while k < bcl:
                    if ltoks[k].k == "id" and ltoks[k].t == "async":
                        j = k + 1
                        if ltoks[j].k == "id" and ltoks[j].t == "move":
                            j += 1
                        if ltoks[j].t == "{":
                            e = rslex.match_close(ltoks, j)
                            s0, s1 = ltoks[k].s, ltoks[e].e
                            edits = [x for x in edits if not (s0 <= x[0] and x[1] <= s1)]
                            edits.append((s0, s1, "opaque_async_block()"))
                            n16 += 1
                            k = e + 1
                            continue
                    k += 1
                # (no async block left — e.g. the statement that built the future was removed: nothing to replace, the
                # contract decides)
                unit.drops["async_blocks_replaced_by_opaque_future"] = unit.drops.get("async_blocks_replaced_by_opaque_future", 0) + n16
            if sink:
                # rule 15: see the module docstring
                n, flag = sink
                if n >= len(loops):
                    raise ExtractError(f"anchor lost: `{path[-1]}` has {len(loops)} loops, sink_exit names loop {n}")
                kwi, lbo = loops[n]
                lcl = rslex.match_close(ltoks, lbo)
                if any(t.k == "id" and t.t == flag for t in ltoks[bol:bcl]):
                    raise ExtractError(f"rule 15: identifier `{flag}` already occurs in `{path[-1]}`")
                inner = [(a, rslex.match_close(ltoks, b)) for (a, b) in loops if lbo < a < lcl]
                hits = []
                for k in range(lbo + 1, lcl - 1):
                    if ltoks[k].k == "id" and ltoks[k].t == "break" and ltoks[k + 1].t == ";" and ltoks[k - 1].t == ";" \
                            and not any(a < k < b for (a, b) in inner):
                        # the statement before: back to the previous `;`, `{` or `}` at the same depth
                        j = k - 2
                        d = 0
                        while j > lbo:
                            tj = ltoks[j].t
                            if tj in (")", "]", "}"):
                                if tj == "}" and d == 0:
                                    break
                                d += 1
                            elif tj in ("(", "[", "{"):
                                if d == 0:
                                    break
                                d -= 1
                            elif tj == ";" and d == 0:
                                break
                            j -= 1
                        st = j + 1
                        if st <= k - 2 and any(t.t == "=" for t in ltoks[st:k - 1]) \
                                and not any(t.k == "id" and t.t in ("let", "return", "break", "continue") for t in ltoks[st:k - 1]):
                            hits.append((st, k))
                if len(hits) > 1:
                    raise ExtractError(f"rule 15: loop {n} of `{path[-1]}` has {len(hits)} statements of the shape `place = e; break;`")
                edits.append((ltoks[kwi].s, ltoks[kwi].s, f"let mut {flag} = false;\n"))
                if hits:
                    st, k = hits[0]
                    # edits of other rules that fall inside the statement (e.g. the rule-10 rename) travel with it
                    s0, s1 = ltoks[st].s, ltoks[k - 1].e
                    inside = [e for e in edits if s0 <= e[0] and e[1] <= s1]
                    edits = [e for e in edits if not (s0 <= e[0] and e[1] <= s1)]
                    stmt = rslex.apply_edits(text[s0:s1], [(a - s0, b - s0, r) for (a, b, r) in inside])
                    edits.append((s0, s1, f"{flag} = true;"))
                    edits.append((ltoks[lcl].e, ltoks[lcl].e, f"\nif {flag} {{ {stmt} }}"))
                # no such statement (the assignment was removed): nothing to sink; the flag stays false and the contract
                # that mentions it decides
                unit.drops["loop_exit_assignments_sunk"] = unit.drops.get("loop_exit_assignments_sunk", 0) + 1
            if closurespec:
                # rule 12: the N-th closure expression of the body (in source order, tracing invocations excluded) gets
                # typed parameters, a named return value and a contract: `|p| e`  ->
                # `|p: &T| -> (o: R) ensures .. { e }`.  The closure body is untouched.
                removed = [(e0, e1) for (e0, e1, _r) in edits if e1 > e0]
                cl = _closures_in(ltoks, bol + 1, bcl, removed)
                for n, cs in closurespec.items():
                    if n >= len(cl):
                        raise ExtractError(f"anchor lost: `{path[-1]}` has {len(cl)} closures, contract names closure {n}")
                    p0, p1, b0, b1, braced = cl[n]
                    edits.append((ltoks[p0].s, ltoks[p1].e, f"|{cs['params']}| -> ({cs['ret']})\n" + "\n".join(cs["lines"]) + "\n"))
                    if not braced:
                        edits.append((ltoks[b0].s, ltoks[b0].s, "{ "))
                        edits.append((ltoks[b1].e, ltoks[b1].e, " }"))
                    unit.drops["closure_contracts_spliced"] = unit.drops.get("closure_contracts_spliced", 0) + 1
            if tailc:
                te = _tail_continue_edits(ltoks, loops)
                unit.drops["tail_continue_rewritten"] += len(te)
                edits += te
            else:
                pass
            text2 = rslex.apply_edits(text, edits)
            if pin_alias:
                # rule 10e (textual, on the function's text after all other rules)
                an, af = pin_alias
                t3, n1 = re.subn(r'let\s+(?:mut\s+)?' + an + r'\s*=\s*self\.project\(\)\.' + af + r'\s*;', '', text2)
                if n1 != 1:
                    raise ExtractError(f"rule 10e: `{path[-1]}` has {n1} statements `let {an} = self.project().{af};`")
                t3, n0 = re.subn(r'\bself\s*:\s*Pin<&mut Self>', '&mut self', t3)
                if n0 != 1:
                    raise ExtractError(f"rule 10e: `{path[-1]}` does not take `self: Pin<&mut Self>`")
                t3 = re.sub(r'\b' + an + r'\b', f'self.{af}', t3)
                t3 = re.sub(r'(?:\w+::)+(\w+)\(\s*self\.' + af + r'\.as_mut\(\)\s*,\s*', r'self.' + af + r'.\1(', t3)
                t3 = re.sub(r'self\.' + af + r'\.project\(\)\.(\w+)\.(\w+)\(', r'Pin::new(&mut self.' + af + r'.\1).\2(', t3)
                text2 = t3
                unit.drops["pin_aliases_written_out"] = unit.drops.get("pin_aliases_written_out", 0) + 1
            fname = oname or emit_as or path[-1].split()[-1]
            owner = ""
            if len(path) >= 2 and path[-2].startswith("impl"):
                owner = path[-2].split()[-1]
                owner = re.sub(r"<.*$", "", owner)
            full = f"{owner}::{fname}" if owner and not oname else fname
            unit.fns.append({"name": full, "file": rel, "path": " :: ".join(path),
                             "lines": [_line_of(src, toks[st].s), _line_of(src, toks[en].e)],
                             "sha256": hashlib.sha256(text.encode()).hexdigest(),
                             "contract": ctext.strip(),
                             "loop_invariants": {str(k): "\n".join(v["lines"]).strip() for k, v in loopspec.items()},
                             "closure_contracts": {str(k): "\n".join(v["lines"]).strip() for k, v in closurespec.items()}})
            unit.expect.append(full)
            emit(text2, full)
            continue
        if s.startswith("//@ expect_fail "):
            unit.expect_fail.append(s.split(None, 2)[2].strip())
            i += 1
            continue
        if s.startswith("//@ expect "):
            unit.expect.append(s.split(None, 2)[2].strip())
            i += 1
            continue
        if s.startswith("//@"):
            raise ExtractError(f"template {name}: unknown directive `{s}`")
        out.append(ln)
        i += 1
    unit.text = "\n".join(out)
    os.makedirs(os.path.dirname(out_path), exist_ok=True)
    with open(out_path, "w") as f:
        f.write(unit.text)
    return unit


def _closures_in(ltoks, a, b, removed):
    """closure expressions between token indices a..b: (first `|`, second `|`, body first tok, body last tok, braced)"""
    res = []
    k = a
    while k < b:
        t = ltoks[k]
        if any(e0 <= t.s and t.e <= e1 for (e0, e1) in removed):
            k += 1
            continue
        prev = ltoks[k - 1].t if k > 0 else ""
        if t.t in ("|", "||") and prev in ("(", ",", "=", "move", "{", ";", "=>"):
            if t.t == "||":
                p0 = p1 = k
            else:
                p0 = k
                p1 = k + 1
                while ltoks[p1].t != "|":
                    p1 += 1
            b0 = p1 + 1
            if ltoks[b0].t == "{":
                b1 = rslex.match_close(ltoks, b0)
                res.append((p0, p1, b0, b1, True))
            else:
                d = 0
                j = b0
                while j < b:
                    x = ltoks[j].t
                    if x in ("(", "[", "{"):
                        d += 1
                    elif x in (")", "]", "}"):
                        if d == 0:
                            break
                        d -= 1
                    elif x == "," and d == 0:
                        break
                    j += 1
                res.append((p0, p1, b0, j - 1, False))
            k = b0
            continue
        k += 1
    return res


SEMANTIC = ("postcondition not satisfied", "precondition not satisfied", "assertion failed",
            "invariant not satisfied", "possible arithmetic underflow/overflow", "possible division by zero",
            "possible bit shift underflow/overflow", "decreases not satisfied", "index out of bounds",
            "unreachable", "loop invariant not satisfied", "possible arithmetic",
            "could not prove termination", "recommendation not met")
RESOURCE = ("Resource limit (rlimit) exceeded", "rlimit", "timed out", "out of memory")


def run(unit, out_path, rlimit=None, timeout=600):
    cmd = ["verus", out_path, "--output-json", "--time", "--multiple-errors", "4"]
    if rlimit:
        cmd += ["--rlimit", str(rlimit)]
    t0 = time.time()
    try:
        p = subprocess.run(cmd, capture_output=True, text=True, timeout=timeout,
                           cwd=os.path.dirname(out_path))
    except subprocess.TimeoutExpired:
        return {"status": "undecided", "reason": f"verus timed out after {timeout}s", "cmd": " ".join(cmd),
                "wall_s": time.time() - t0, "funcs": {}, "errors": [], "stderr": ""}
    wall = time.time() - t0
    res = {"cmd": " ".join(cmd), "wall_s": wall, "stderr": p.stderr, "funcs": {}, "errors": []}
    try:
        js = json.loads(p.stdout)
    except Exception:
        res["status"] = "undecided"
        res["reason"] = "verus produced no JSON: " + p.stderr[-2000:]
        return res
    vr = js.get("verification-results", {})
    res["verus_version"] = js.get("verus", {}).get("version")
    res["summary"] = vr
    crate = unit.name
    smt = js.get("times-ms", {}).get("smt", {})
    res["smt_ms"] = smt.get("total")
    res["total_ms"] = js.get("times-ms", {}).get("total")
    for m in smt.get("smt-run-module-times", []):
        for fb in m.get("function-breakdown", []):
            nm = fb["function"]
            if nm.startswith(crate + "::"):
                nm = nm[len(crate) + 2:]
            res["funcs"][nm] = {"success": fb.get("success"), "mode": fb.get("mode:"),
                                "time_us": fb.get("time-micros"), "rlimit": fb.get("rlimit")}
    # parse diagnostics
    errs = []
    cur = None
    for l in p.stderr.split("\n"):
        m = re.match(r"^(error|note)(\[E\d+\])?: (.*)$", l)
        if m and m.group(1) == "error":
            cur = {"msg": m.group(3), "code": m.group(2), "line": None, "text": [l]}
            errs.append(cur)
            continue
        if cur is not None:
            cur["text"].append(l)
            m2 = re.match(r"^\s*--> .*?:(\d+):(\d+)", l)
            if m2 and cur["line"] is None:
                cur["line"] = int(m2.group(1))
    errs = [e for e in errs if not e["msg"].startswith("aborting due to")]
    for e in errs:
        e["fn"] = None
        if e["line"]:
            for a, b, fnn in unit.linemap:
                if a <= e["line"] <= b:
                    e["fn"] = fnn
        msg = e["msg"]
        if any(k in msg for k in SEMANTIC):
            e["class"] = "semantic"
        elif any(k in msg for k in RESOURCE):
            e["class"] = "resource"
        else:
            e["class"] = "translation"
        e["text"] = "\n".join(e["text"][:40])
    res["errors"] = errs
    if vr.get("encountered-vir-error") or (vr.get("encountered-error") and not res["funcs"]):
        res["status"] = "undecided"
        res["reason"] = "translation error: " + "; ".join(e["msg"] for e in errs[:3])
    else:
        res["status"] = "ran"
    return res


def match_fn(funcs, suffix):
    """function-breakdown names look like `Type::f` or `impl&%3::f`; match on suffix."""
    hits = [k for k in funcs if k == suffix or k.endswith("::" + suffix)]
    if not hits and "::" in suffix:
        # trait impls are reported as impl&%N::name
        last = suffix.split("::")[-1]
        hits = [k for k in funcs if k.endswith("::" + last) and "impl&%" in k]
    return hits
