"""Rust-lite lexer and item locator used for *mechanical extraction* of real litep2p
source text.  Nothing here rewrites an expression: it finds byte ranges (items, function
signatures, loop headers, tracing macro statements) so that the driver can copy the text
verbatim and splice contract clauses between signature and body.

Token kinds: id, punct, str, char, life, num.  Comments are skipped (never tokens).
"""
import re

KW_ITEM = {"fn", "struct", "enum", "impl", "const", "type", "trait", "mod", "static", "use"}


class Tok:
    __slots__ = ("k", "t", "s", "e")

    def __init__(self, k, t, s, e):
        self.k, self.t, self.s, self.e = k, t, s, e

    def __repr__(self):
        return f"{self.k}:{self.t!r}@{self.s}"


_ident = re.compile(r"[A-Za-z_][A-Za-z0-9_]*")
_num = re.compile(r"[0-9][0-9A-Za-z_]*(\.[0-9][0-9A-Za-z_]*)?")
_P3 = ("..=", "<<=", ">>=", "...")
_P2 = ("::", "->", "=>", "==", "!=", "<=", ">=", "&&", "||", "+=", "-=", "*=", "/=", "%=", "^=",
       "&=", "|=", "<<", ">>", "..")


def lex(src, base=0):
    toks = []
    i, n = 0, len(src)
    while i < n:
        c = src[i]
        if c in " \t\r\n":
            i += 1
            continue
        if src.startswith("//", i):
            j = src.find("\n", i)
            i = n if j < 0 else j
            continue
        if src.startswith("/*", i):
            depth, j = 1, i + 2
            while j < n and depth:
                if src.startswith("/*", j):
                    depth += 1
                    j += 2
                elif src.startswith("*/", j):
                    depth -= 1
                    j += 2
                else:
                    j += 1
            i = j
            continue
        # raw strings / byte strings
        m = re.match(r"(b|c)?r(#*)\"", src[i:i + 40])
        if m:
            hashes = m.group(2)
            end = src.find('"' + hashes, i + m.end())
            j = end + 1 + len(hashes)
            toks.append(Tok("str", src[i:j], base + i, base + j))
            i = j
            continue
        if c == '"' or (c in "bc" and i + 1 < n and src[i + 1] == '"'):
            j = i + (2 if c != '"' else 1)
            while j < n and src[j] != '"':
                j += 2 if src[j] == "\\" else 1
            j += 1
            toks.append(Tok("str", src[i:j], base + i, base + j))
            i = j
            continue
        if c == "'" or (c == "b" and i + 1 < n and src[i + 1] == "'"):
            k = i + (1 if c == "b" else 0)
            # char literal or lifetime
            if k + 1 < n and src[k + 1] == "\\":
                j = k + 2
                while j < n and src[j] != "'":
                    j += 1
                j += 1
                toks.append(Tok("char", src[i:j], base + i, base + j))
                i = j
                continue
            if k + 2 < n and src[k + 2] == "'":
                j = k + 3
                toks.append(Tok("char", src[i:j], base + i, base + j))
                i = j
                continue
            m = _ident.match(src, k + 1)
            if m and c == "'":
                toks.append(Tok("life", src[i:m.end()], base + i, base + m.end()))
                i = m.end()
                continue
            # multi-byte char literal such as 'é'
            j = src.find("'", k + 1) + 1
            toks.append(Tok("char", src[i:j], base + i, base + j))
            i = j
            continue
        m = _ident.match(src, i)
        if m:
            # raw identifier r#foo handled as id
            toks.append(Tok("id", m.group(0), base + i, base + m.end()))
            i = m.end()
            continue
        m = _num.match(src, i)
        if m:
            # do not swallow `..` of a range after an integer: 0..n
            t = m.group(0)
            if m.group(1) is None and src.startswith("..", m.end()):
                pass
            toks.append(Tok("num", t, base + i, base + i + len(t)))
            i += len(t)
            continue
        for p in _P3:
            if src.startswith(p, i):
                toks.append(Tok("punct", p, base + i, base + i + 3))
                i += 3
                break
        else:
            for p in _P2:
                if src.startswith(p, i):
                    toks.append(Tok("punct", p, base + i, base + i + 2))
                    i += 2
                    break
            else:
                toks.append(Tok("punct", c, base + i, base + i + 1))
                i += 1
    return toks


OPEN = {"(": ")", "[": "]", "{": "}"}
CLOSE = {")", "]", "}"}


def match_close(toks, i):
    """index of the token closing the bracket opened at toks[i]."""
    depth = 0
    for j in range(i, len(toks)):
        t = toks[j]
        if t.k == "punct":
            if t.t in OPEN:
                depth += 1
            elif t.t in CLOSE:
                depth -= 1
                if depth == 0:
                    return j
    raise ValueError("unbalanced bracket at %r" % toks[i])


def norm(toks):
    return " ".join(t.t for t in toks)


class ExtractError(Exception):
    pass


def _item_start(toks, i, lo):
    """walk back from keyword index i over qualifiers, visibility and attributes."""
    j = i
    while j - 1 >= lo:
        p = toks[j - 1]
        if p.k == "id" and p.t in ("pub", "async", "unsafe", "const", "extern", "default"):
            j -= 1
            continue
        if p.k == "punct" and p.t == ")":
            # pub(crate) / pub(super)
            k = j - 1
            d = 0
            while k >= lo:
                if toks[k].t == ")":
                    d += 1
                elif toks[k].t == "(":
                    d -= 1
                    if d == 0:
                        break
                k -= 1
            if k - 1 >= lo and toks[k - 1].t == "pub":
                j = k - 1
                continue
            break
        if p.k == "punct" and p.t == "]":
            k = j - 1
            d = 0
            while k >= lo:
                if toks[k].t == "]":
                    d += 1
                elif toks[k].t == "[":
                    d -= 1
                    if d == 0:
                        break
                k -= 1
            if k - 1 >= lo and toks[k - 1].t == "#":
                j = k - 1
                continue
            break
        break
    return j


def find_item(toks, lo, hi, step):
    """Find one item inside token range [lo,hi) at nesting depth 0.
    step: 'struct X' | 'enum X' | 'fn X' | 'const X' | 'type X' | 'trait X' | 'mod X'
          | 'impl <header tokens...>'
    returns (start_idx, kw_idx, body_open_idx or None, end_idx_inclusive)"""
    want = norm(lex(step))
    kw = want.split(" ", 1)[0]
    hits = []
    depth = 0
    i = lo
    while i < hi:
        t = toks[i]
        if t.k == "punct" and t.t in OPEN:
            depth += 1
        elif t.k == "punct" and t.t in CLOSE:
            depth -= 1
        elif depth == 0 and t.k == "id" and t.t == kw:
            # header = tokens from kw up to '{' or ';' at bracket depth 0 (angle brackets ignored)
            j = i
            d = 0
            while j < hi:
                tj = toks[j]
                if tj.k == "punct":
                    if tj.t in ("(", "["):
                        d += 1
                    elif tj.t in (")", "]"):
                        d -= 1
                    elif d == 0 and tj.t in ("{", ";"):
                        break
                j += 1
            if j >= hi:
                break
            header = norm(toks[i:j])
            ok = False
            if kw == "macro_rules":
                ok = (i + 2 < hi and toks[i + 1].t == "!" and f"macro_rules ! {toks[i + 2].t}" == want)
            elif kw == "impl":
                ok = header == want
            else:
                # name is the token after kw; compare "kw name"
                ok = (i + 1 < hi and toks[i + 1].k == "id" and f"{kw} {toks[i + 1].t}" == want)
                # `const fn` / `const X`: skip `const` qualifier of a fn
                if kw == "const" and i + 1 < hi and toks[i + 1].t == "fn":
                    ok = False
            if ok:
                if toks[j].t == "{":
                    end = match_close(toks, j)
                    # tuple struct with where-clause etc. not needed
                    hits.append((_item_start(toks, i, lo), i, j, end))
                else:
                    hits.append((_item_start(toks, i, lo), i, None, j))
        i += 1
    if not hits:
        raise ExtractError(f"anchor lost: no item `{step}`")
    if len(hits) > 1:
        raise ExtractError(f"anchor ambiguous: {len(hits)} items match `{step}`")
    return hits[0]


def locate(src, path):
    """path: list of steps.  Returns (toks, start_idx, kw_idx, body_open_idx, end_idx)."""
    toks = lex(src)
    lo, hi = 0, len(toks)
    res = None
    for n, step in enumerate(path):
        res = find_item(toks, lo, hi, step)
        if n + 1 < len(path):
            if res[2] is None:
                raise ExtractError(f"`{step}` has no body to descend into")
            lo, hi = res[2] + 1, res[3]
    return (toks,) + res


# --------------------------------------------------------------------------------------
# text edits are collected as (start, end, replacement) over the ORIGINAL item text and
# applied right-to-left, so positions never shift under our feet.

def apply_edits(text, edits):
    out = text
    last = None
    for s, e, r in sorted(edits, key=lambda x: (x[0], x[1]), reverse=True):
        if last is not None and e > last:
            raise ExtractError("overlapping edits")
        out = out[:s] + r + out[e:]
        last = s
    return out


TRACING_LEVELS = {"trace", "debug", "info", "warn", "error"}


def tracing_edits(toks):
    """rule 1: delete `tracing::<level>!( .. );` statements; an invocation in expression
    position (no trailing `;`) becomes `()`."""
    edits = []
    n = 0
    i = 0
    while i + 4 < len(toks):
        if (toks[i].t == "tracing" and toks[i + 1].t == "::" and toks[i + 2].t in TRACING_LEVELS
                and toks[i + 3].t == "!" and toks[i + 4].t in OPEN):
            c = match_close(toks, i + 4)
            if c + 1 < len(toks) and toks[c + 1].t == ";":
                edits.append((toks[i].s, toks[c + 1].e, ""))
                i = c + 2
            else:
                edits.append((toks[i].s, toks[c].e, "()"))
                i = c + 1
            n += 1
            continue
        i += 1
    return edits, n


def vis_edits(toks):
    """rule 2: strip visibility qualifiers."""
    edits = []
    i = 0
    while i < len(toks):
        if toks[i].k == "id" and toks[i].t == "pub":
            e = toks[i].e
            if i + 1 < len(toks) and toks[i + 1].t == "(":
                c = match_close(toks, i + 1)
                inner = norm(toks[i + 2:c])
                if inner in ("crate", "super", "self") or inner.startswith("in "):
                    e = toks[c].e
            edits.append((toks[i].s, e, ""))
        i += 1
    return edits


def cfg_feature_edits(toks, off_features, text=None):
    """rule 3: remove `#[cfg(feature = "f")]`-guarded items/fields/variants/arms for features that
    are off in the default build.  The guarded thing ends at the first `,` or `;` at depth 0, or
    at the end of its `{..}` block when that comes first followed by no `,`."""
    edits = []
    i = 0
    while i + 5 < len(toks):
        is_feat = (i + 7 < len(toks) and toks[i].t == "#" and toks[i + 1].t == "[" and toks[i + 2].t == "cfg"
                   and toks[i + 3].t == "(" and toks[i + 4].t == "feature" and toks[i + 5].t == "="
                   and toks[i + 6].k == "str" and toks[i + 7].t == ")")
        # `#[cfg(test)]` elements are off in the production build as well
        is_test = (toks[i].t == "#" and toks[i + 1].t == "[" and toks[i + 2].t == "cfg" and toks[i + 3].t == "("
                   and toks[i + 4].t == "test" and toks[i + 5].t == ")")
        if is_feat or is_test:
            feat = toks[i + 6].t.strip('"') if is_feat else "test"
            close = match_close(toks, i + 1)
            if feat in off_features or is_test:
                j = close + 1
                # skip further attributes
                while j < len(toks) and toks[j].t == "#":
                    j = match_close(toks, j + 1) + 1
                d = 0
                end = None
                sawblock = False
                while j < len(toks):
                    t = toks[j]
                    if t.k == "punct" and t.t in OPEN:
                        if d == 0 and t.t == "{":
                            c = match_close(toks, j)
                            j = c
                            sawblock = True
                            nxt = toks[j + 1] if j + 1 < len(toks) else None
                            if nxt is not None and nxt.t in (",", ";"):
                                end = nxt.e
                            else:
                                end = toks[j].e
                            break
                        d += 1
                    elif t.k == "punct" and t.t in CLOSE:
                        if d == 0:
                            end = toks[j - 1].e
                            break
                        d -= 1
                    elif d == 0 and t.t in (",", ";"):
                        end = t.e
                        break
                    j += 1
                if end is None:
                    raise ExtractError("cfg(feature) guarded element without end")
                start = toks[i].s
                if text is not None:
                    # doc comments directly above the attribute belong to the removed element
                    while True:
                        ls = text.rfind("\n", 0, start)
                        prev_ls = text.rfind("\n", 0, ls) + 1 if ls > 0 else 0
                        prev = text[prev_ls:ls] if ls >= 0 else ""
                        if text[ls + 1:start].strip() == "" and prev.strip().startswith("///"):
                            start = prev_ls
                        else:
                            break
                edits.append((start, end, ""))
                # continue scanning after the removed region
                while i < len(toks) and toks[i].s < end:
                    i += 1
                continue
        i += 1
    return edits


def fn_parts(toks, kw_idx, body_open):
    """for a fn item: (params_open, params_close, arrow_idx or None, ret_end_idx(exclusive), body_open)"""
    i = kw_idx + 2
    # generics
    if toks[i].t == "<":
        d = 0
        while True:
            if toks[i].t == "<":
                d += 1
            elif toks[i].t == ">":
                d -= 1
                if d == 0:
                    i += 1
                    break
            elif toks[i].t == ">>":
                d -= 2
                if d <= 0:
                    i += 1
                    break
            i += 1
    if toks[i].t != "(":
        raise ExtractError("fn signature: expected `(`")
    pc = match_close(toks, i)
    arrow = None
    ret_end = body_open
    j = pc + 1
    if toks[j].t == "->":
        arrow = j
        k = j + 1
        d = 0
        while k < body_open:
            if toks[k].t in ("(", "["):
                d += 1
            elif toks[k].t in (")", "]"):
                d -= 1
            elif d == 0 and toks[k].k == "id" and toks[k].t == "where":
                break
            k += 1
        ret_end = k
    return i, pc, arrow, ret_end, body_open


def loops_in(toks, lo, hi):
    """loop keyword token indices between lo and hi in source order, with their body `{` index."""
    out = []
    i = lo
    while i < hi:
        t = toks[i]
        if t.k == "id" and t.t in ("for", "while", "loop"):
            if t.t == "for" and toks[i + 1].t == "<":
                i += 1
                continue
            j = i + 1
            d = 0
            while j < hi:
                tj = toks[j]
                if tj.k == "punct":
                    if tj.t in ("(", "["):
                        d += 1
                    elif tj.t in (")", "]"):
                        d -= 1
                    elif tj.t == "{" and d == 0:
                        break
                j += 1
            out.append((i, j))
        i += 1
    return out
