"""Kani route: annotate a scratch copy of /repo in place (add-only), run cargo kani on the real crate,
parse per-harness results, replay counterexamples natively.

A Kani unit is one Rust file `kani/<unit>.rs` whose leading `//@` lines say where it attaches:

  //@ module <file>                         the harness becomes a child module of this module file
  //@ annotate <file> :: <step> [:: <step>]  add-only attribute lines placed above the anchored fn
  //@   #[cfg_attr(kani, kani::requires(..))]
  //@ end
  //@ harness <name> kind=proof|bounded|canary|witness tier=quick|thorough [timeout=<s>] [bound="text"]
  //@         [covers=<n>] [finding=<key>]
"""
import json
import os
import re
import shlex
import shutil
import subprocess
import time

from . import rslex
from .rslex import ExtractError

VERIF = os.path.dirname(os.path.dirname(os.path.abspath(__file__)))
CACHE = os.environ.get("VC_CACHE") or os.path.join(VERIF, ".cache", "kani-target")
SHIM = os.path.join(VERIF, "shims", "tracing-noop")


class KUnit:
    def __init__(self, name, path):
        self.name = name
        self.path = path
        self.module = None
        self.annotations = []   # (file, path, [attr lines])
        self.harnesses = {}     # name -> dict
        self.text = open(path).read()
        self._parse()

    def _parse(self):
        lines = self.text.split("\n")
        i = 0
        while i < len(lines):
            s = lines[i].strip()
            if s.startswith("//@ module "):
                self.module = s.split(None, 2)[2].strip()
            elif s.startswith("//@ annotate "):
                parts = [p.strip() for p in s[len("//@ annotate "):].split(" :: ")]
                attrs = []
                i += 1
                while lines[i].strip() != "//@ end":
                    a = lines[i].strip()
                    assert a.startswith("//@"), a
                    attrs.append(a[3:].strip())
                    i += 1
                self.annotations.append((parts[0], parts[1:], attrs))
            elif s.startswith("//@ harness "):
                toks = shlex.split(s[len("//@ harness "):])
                h = {"name": toks[0], "kind": "proof", "tier": "quick", "timeout": 600, "unit": self.name}
                for t in toks[1:]:
                    k, v = t.split("=", 1)
                    h[k] = v
                h["timeout"] = int(h["timeout"])
                self.harnesses[h["name"]] = h
            i += 1
        if not self.module:
            raise ExtractError(f"kani unit {self.name}: no //@ module line")


def scratch_dir(tag):
    return f"/var/tmp/litep2p-vc-{tag}"


def prepare_scratch(repo, scratch, units):
    """rsync the working tree, attach harness modules, annotate, swap tracing for the shim."""
    if os.path.exists(scratch):
        shutil.rmtree(scratch)
    os.makedirs(scratch)
    subprocess.run(["rsync", "-a", "--exclude", "/target", "--exclude", "/.git", "--exclude", "/fuzz",
                    repo.rstrip("/") + "/", scratch + "/"], check=True)
    hdir = os.path.join(scratch, "src", "verif_kani")
    os.makedirs(hdir, exist_ok=True)
    notes = {"attached": [], "annotated": []}
    for u in units:
        dst = os.path.join(hdir, u.name + ".rs")
        shutil.copy(u.path, dst)
        modfile = os.path.join(scratch, u.module)
        if not os.path.exists(modfile):
            raise ExtractError(f"anchor lost: module file {u.module} missing")
        with open(modfile, "a") as f:
            f.write(f"\n#[cfg(kani)]\n#[path = \"{dst}\"]\npub(crate) mod verif_{u.name};\n")
        notes["attached"].append({"unit": u.name, "module": u.module})
        # annotations: add-only attribute lines above the fn
        byfile = {}
        for (rel, path, attrs) in u.annotations:
            byfile.setdefault(rel, []).append((path, attrs))
        for rel, lst in byfile.items():
            p = os.path.join(scratch, rel)
            src = open(p).read()
            edits = []
            for path, attrs in lst:
                toks, st, kw, bo, en = rslex.locate(src, path)
                pos = toks[st].s
                # start of line
                ls = src.rfind("\n", 0, pos) + 1
                indent = src[ls:pos]
                edits.append((ls, ls, "".join(indent + a + "\n" for a in attrs)))
                notes["annotated"].append({"file": rel, "path": " :: ".join(path), "attrs": attrs})
            src2 = rslex.apply_edits(src, edits)
            open(p, "w").write(src2)
    # tracing -> shim
    ct = os.path.join(scratch, "Cargo.toml")
    c = open(ct).read()
    c2, n = re.subn(r'(?m)^tracing = \{[^\n]*\}\s*$',
                    f'tracing = {{ package = "verif-tracing-noop", path = "{SHIM}" }}', c)
    if n != 1:
        raise ExtractError("Cargo.toml: tracing dependency line not found")
    c2 += "\n[lints.rust]\nunexpected_cfgs = { level = \"allow\", check-cfg = ['cfg(kani)'] }\n"
    open(ct, "w").write(c2)
    # lock file: the shim replaces tracing; let cargo re-resolve offline (only removes packages)
    os.makedirs(os.path.join(scratch, ".cargo"), exist_ok=True)
    open(os.path.join(scratch, ".cargo", "config.toml"), "w").write("[net]\noffline = true\n")
    return notes


RES_RE = re.compile(r"^VERIFICATION:- (SUCCESSFUL|FAILED)")


def run(scratch, harnesses, jobs=8, extra=None, log_path=None, timeout=None):
    """One cargo-kani invocation for all harnesses (one build).  Returns dict name -> result."""
    names = [h["name"] for h in harnesses]
    maxto = max([h["timeout"] for h in harnesses] + [60])
    cmd = ["cargo", "kani", "-Z", "function-contracts", "-Z", "stubbing", "-Z", "unstable-options",
           "--output-format", "terse", "-j", str(jobs), "--harness-timeout", f"{maxto}s"]
    for n in names:
        cmd += ["--harness", n]
    cmd += ["--exact"] if False else []
    if extra:
        cmd += extra
    env = dict(os.environ)
    env["CARGO_NET_OFFLINE"] = "true"
    env["CARGO_TARGET_DIR"] = CACHE
    t0 = time.time()
    overall = timeout or (maxto * max(1, (len(names) + jobs - 1) // jobs) + 900)
    def limit():
        # every child (kani-compiler, goto-instrument, cbmc) gets an address-space cap so that one runaway solver
        # cannot take the machine down; hitting it is reported as `resource` (undecided), never as a violation
        import resource
        cap = int(os.environ.get("VC_MEM_GB", "28")) << 30
        resource.setrlimit(resource.RLIMIT_AS, (cap, cap))
    try:
        p = subprocess.run(cmd, cwd=scratch, env=env, capture_output=True, text=True, timeout=overall,
                           preexec_fn=limit)
        out = p.stdout + "\n--- stderr ---\n" + p.stderr
        rc = p.returncode
    except subprocess.TimeoutExpired as e:
        out = (e.stdout or b"").decode(errors="replace") if isinstance(e.stdout, bytes) else (e.stdout or "")
        out += "\n--- overall timeout ---\n"
        rc = -9
    wall = time.time() - t0
    if log_path:
        os.makedirs(os.path.dirname(log_path), exist_ok=True)
        open(log_path, "w").write("$ " + " ".join(cmd) + "\n" + out)
    return parse(out, names, rc, wall, " ".join(cmd))


def parse(out, names, rc, wall, cmd):
    """terse output, one block per harness:
         Checking harness a::b::name...
         ... failed checks ...
         VERIFICATION:- SUCCESSFUL|FAILED
         Verification Time: 1.2s
    with -j the blocks are printed atomically (Thread N: prefix)."""
    res = {n: {"status": "missing", "time_s": None, "failed_checks": [], "covers": None, "raw": ""} for n in names}
    res["_meta"] = {"rc": rc, "wall_s": wall, "cmd": cmd, "compile_error": None}
    if re.search(r"error(\[E\d+\])?: ", out) and "Checking harness" not in out:
        m = re.search(r"(error(\[E\d+\])?: .*?)(\n\n|\Z)", out, re.S)
        res["_meta"]["compile_error"] = (m.group(1) if m else out[-3000:])[:4000]
    if "panicked at" in out and "kani-compiler" in out or "Kani unexpectedly panicked" in out:
        i = out.find("panicked at")
        res["_meta"]["compile_error"] = "kani-compiler panic: " + out[max(0, i - 200):i + 1500]
    cur = None
    by_thread = {}
    for line in out.split("\n"):
        mt = re.match(r"^Thread (\d+): (.*)$", line)
        thread = None
        l = line
        if mt:
            thread, l = mt.group(1), mt.group(2)
        m = re.match(r"^Checking harness (\S+?)\.\.\.", l)
        if m:
            full = m.group(1)
            short = full.split("::")[-1]
            h = short if short in res else None
            if h:
                res[h]["full_name"] = full
                res[h]["status"] = "started"
            if thread is not None:
                by_thread[thread] = h
                cur = None
            else:
                cur = h
            continue
        if thread is not None:
            # start of a result block printed atomically by that thread
            cur = by_thread.get(thread)
            if not l.strip():
                continue
        if cur is None:
            continue
        r = res[cur]
        r["raw"] += l + "\n"
        m = RES_RE.match(l)
        if m:
            r["status"] = "success" if m.group(1) == "SUCCESSFUL" else "failed"
            continue
        m = re.match(r"^Verification Time: ([0-9.]+)s", l)
        if m:
            r["time_s"] = float(m.group(1))
            cur = None
            continue
        m = re.match(r"^Failed Checks: (.*)$", l)
        if m:
            r["failed_checks"].append(m.group(1).strip())
            continue
        m = re.match(r"^\s*\*\* (\d+) of (\d+) cover properties satisfied", l)
        if m:
            r["covers"] = (int(m.group(1)), int(m.group(2)))
            continue
        if "timed out" in l.lower():
            r["status"] = "timeout"
        if "out of memory" in l.lower() or "std::bad_alloc" in l or "status 137" in l \
                or "killed by signal" in l.lower():
            r["status"] = "resource"
    # timeouts: kani prints in the summary
    for n in names:
        r = res[n]
        if r["status"] == "started":
            r["status"] = "timeout" if ("timed out" in out.lower() or rc == -9) else "unknown"
    return res


def classify_failure(r):
    """semantic failure vs tool limit.  Unwinding-assertion or unsupported-construct failures alone are
    never a violation."""
    fc = r.get("failed_checks", [])
    sem = [c for c in fc if not re.search(r"unwinding assertion|unsupported|not currently supported|"
                                          r"is not supported|Unsupported", c)]
    if r["status"] == "failed" and sem:
        return "semantic", sem
    if r["status"] == "failed" and fc:
        return "tool", fc
    if r["status"] == "failed":
        # FAILED without a single failed check (`** 0 of N failed`) is CBMC giving up (memory, crash, unsupported
        # construct): undecided, never an alarm
        if re.search(r"\*\* 0 of \d+ failed", r.get("raw", "")) or not fc:
            return "tool", ["verification FAILED with 0 failed checks (solver/resource limit)"]
        return "semantic", ["(no failed-check line captured; see log)"]
    return r["status"], []


def playback(scratch, harness_name, log_dir, jobs=1, timeout=1800):
    """Re-run one failing harness with concrete playback written in place, then execute the generated
    unit test natively against the scratch copy of the real code."""
    env = dict(os.environ)
    env["CARGO_NET_OFFLINE"] = "true"
    env["CARGO_TARGET_DIR"] = CACHE
    cmd = ["cargo", "kani", "-Z", "function-contracts", "-Z", "stubbing", "-Z", "concrete-playback",
           "--concrete-playback=inplace", "--output-format", "terse", "--harness", harness_name]
    os.makedirs(log_dir, exist_ok=True)
    out = {"generated": False, "test": None, "native_output": None, "reproduced": None}
    try:
        p = subprocess.run(cmd, cwd=scratch, env=env, capture_output=True, text=True, timeout=timeout)
    except subprocess.TimeoutExpired:
        out["native_output"] = "concrete playback generation timed out"
        return out
    open(os.path.join(log_dir, "playback-gen.log"), "w").write(p.stdout + p.stderr)
    m = re.search(r"kani_concrete_playback_\w+", p.stdout + p.stderr)
    if not m:
        return out
    test = m.group(0)
    out["generated"] = True
    out["test"] = test
    # Kani writes one test per failed check AND per satisfied cover; identical inputs get identical names.
    # Keep the first definition of each generated test so that the file still compiles.
    for root, _, files in os.walk(os.path.join(scratch, "src", "verif_kani")):
        for fn in files:
            fp = os.path.join(root, fn)
            txt = open(fp).read()
            parts = re.split(r"(?m)^(?=/// Test generated for harness )", txt)
            if len(parts) > 1:
                seen, keep = set(), [parts[0]]
                for blk in parts[1:]:
                    mm = re.search(r"fn (kani_concrete_playback_\w+)", blk)
                    nm = mm.group(1) if mm else blk
                    if nm not in seen:
                        seen.add(nm)
                        keep.append(blk)
                open(fp, "w").write("".join(keep))
    cmd2 = ["cargo", "kani", "playback", "-Z", "concrete-playback", "--", test]
    try:
        p2 = subprocess.run(cmd2, cwd=scratch, env=env, capture_output=True, text=True, timeout=timeout)
        o = p2.stdout + p2.stderr
    except subprocess.TimeoutExpired:
        o = "native playback timed out"
    keep = [l for l in o.split("\n") if re.search(r"panicked|test result|^test |assert|FAILED|failures|error\[", l)]
    out["native_output"] = "\n".join(keep[-60:]) if keep else o[-3000:]
    # a panic raised by Kani's own playback driver (it ran out of recorded values because the native run took a
    # different path than the symbolic one, typical for stubbed harnesses) is NOT a reproduction
    panics = re.findall(r"panicked at ([^\n]*)", o)
    real = [x for x in panics if "concrete_playback.rs" not in x]
    out["reproduced"] = bool(real)
    return out
